#!/bin/bash
# usage: seedcheck.sh <Cxx> <letter> <check ids...>   (confirms a seeded change and runs checks against it)
# SEEDROOT (default /tmp/seed3) holds the sub-agent's worktree <Cxx>/ with OUT/<letter>_patch.diff and OUT/<letter>_demo.rs
P=$1; X=$2; shift 2
ROOT=${SEEDROOT:-/tmp/seed3}
W=$ROOT/$P
OUT=/verif/seeded/${P}_$X
# evidence of runs against a changed tree never lands in /verif/evidence
export VERIF_EVIDENCE_DIR=/tmp/seed_evidence
mkdir -p $OUT $VERIF_EVIDENCE_DIR
cp $W/OUT/${X}_patch.diff $OUT/patch.diff
cp $W/OUT/${X}_demo.rs $OUT/demo.rs
if [ -z "$SKIP_DEMO" ]; then
cd $W && git checkout -q -- src && cp OUT/${X}_demo.rs tests/seed_demo_$X.rs
git apply OUT/${X}_patch.diff || { echo "PATCH DOES NOT APPLY in worktree"; exit 3; }
timeout 900 cargo test --offline --test seed_demo_$X > $OUT/demo_with_change.log 2>&1; RC1=$?
git checkout -q -- src
timeout 900 cargo test --offline --test seed_demo_$X > $OUT/demo_unchanged.log 2>&1; RC2=$?
rm -f tests/seed_demo_$X.rs
echo "demo with change rc=$RC1 (expect !=0), unchanged rc=$RC2 (expect 0)"
else RC1=skipped; RC2=skipped; fi
cd /verif
PATCH=$OUT/patch.diff
# a fix: commit may have touched the lines of a seeded change: the same change re-made on the new HEAD
[ -f $OUT/patch_rebased.diff ] && PATCH=$OUT/patch_rebased.diff
git -C /repo apply $PATCH || { echo "PATCH DOES NOT APPLY to /repo HEAD"; git -C /repo checkout -- .; exit 4; }
RES=""
for C in "$@"; do
  ./check $C quick > $OUT/check_$C.log 2>&1; RC=$?
  V=$(grep -c "^VIOLATION" $OUT/check_$C.log)
  echo "check $C rc=$RC violations=$V $(grep '^failure' $OUT/check_$C.log | head -2 | cut -c1-200 | tr '\n' '|')"
  RES="$RES $C:$RC"
done
git -C /repo checkout -- .
echo "$P $X demo_with=$RC1 demo_without=$RC2 checks:$RES" >> /verif/seeded/RESULTS.txt
