#!/bin/bash
# usage: seedcheck.sh <Cxx> <a|b> <check ids...>   (confirms a seeded change and runs checks against it)
P=$1; X=$2; shift 2
W=/tmp/seed/$P
OUT=/verif/seeded/${P}_$X
mkdir -p $OUT
cp $W/OUT/${X}_patch.diff $OUT/patch.diff
cp $W/OUT/${X}_demo.rs $OUT/demo.rs
cd $W && git checkout -q -- src && cp OUT/${X}_demo.rs tests/seed_demo_$X.rs
git apply OUT/${X}_patch.diff || { echo "PATCH DOES NOT APPLY in worktree"; exit 3; }
cargo test --offline --test seed_demo_$X > $OUT/demo_with_change.log 2>&1; RC1=$?
git checkout -q -- src
cargo test --offline --test seed_demo_$X > $OUT/demo_unchanged.log 2>&1; RC2=$?
echo "demo with change rc=$RC1 (expect !=0), unchanged rc=$RC2 (expect 0)"
# does the change still break things on the current HEAD of /repo?
H=/tmp/seed/HEAD
cd $H && git checkout -q -- . && git checkout -q --detach $(git -C /repo rev-parse HEAD) && cp $OUT/demo.rs tests/seed_demo_$X.rs
if git apply $OUT/patch.diff; then
  cargo test --offline --test seed_demo_$X > $OUT/demo_head_with_change.log 2>&1; RC3=$?
  git checkout -q -- src
  echo "demo on current HEAD with change rc=$RC3 (expect !=0)"
else
  echo "PATCH DOES NOT APPLY to current HEAD"; RC3=-1
fi
rm -f tests/seed_demo_$X.rs
cd /verif
git -C /repo apply $OUT/patch.diff || { echo "PATCH DOES NOT APPLY to /repo HEAD"; git -C /repo checkout -- .; exit 4; }
RES=""
for C in "$@"; do
  ./check $C quick > $OUT/check_$C.log 2>&1; RC=$?
  V=$(grep -c "^VIOLATION" $OUT/check_$C.log)
  echo "check $C rc=$RC violations=$V $(grep '^failure' $OUT/check_$C.log | head -2 | cut -c1-200 | tr '\n' '|')"
  RES="$RES $C:$RC"
done
git -C /repo checkout -- .
echo "$P $X demo_with=$RC1 demo_without=$RC2 demo_head_with=$RC3 checks:$RES" >> /verif/seeded/RESULTS.txt
