#!/usr/bin/env python3
"""Round 3 (e/f): writes seeded/<Cxx>_<x>/meta.json from /tmp/needs3.py-style NEEDS, seeded/DEMOS.txt and seeded/RESULTS.txt.
usage: mkmeta3.py <needs.py> [overrides.json]"""
import json, sys, glob, os, re
ns = {}
exec(open(sys.argv[1]).read(), ns)
NEEDS = ns["NEEDS"]
OVR = json.load(open(sys.argv[2])) if len(sys.argv) > 2 else {}
demos = {}
for l in open("/verif/seeded/DEMOS.txt"):
    w = l.split()
    if len(w) >= 4:
        demos[f"{w[0]}_{w[1]}"] = (w[2], w[3])
res = {}
for l in open("/verif/seeded/RESULTS.txt"):
    w = l.split()
    if len(w) >= 2 and w[1] in ("e", "f"):
        sid = f"{w[0]}_{w[1]}"
        for t in w:
            m = re.fullmatch(r"(C\d\d):(-?\d+)", t)
            if m:
                res.setdefault(sid, {})[m.group(1)] = int(m.group(2))  # last run wins
for sid, needs in sorted(NEEDS.items()):
    d = f"/verif/seeded/{sid}"
    if not os.path.isdir(d):
        continue
    pid = sid[:3]
    r = res.get(sid, {})
    caught = [c for c, rc in sorted(r.items()) if rc == 1]
    missed = [c for c, rc in sorted(r.items()) if rc == 0]
    incon = [c for c, rc in sorted(r.items()) if rc == 2]
    text = OVR.get(sid)
    if text is None:
        if caught:
            text = ", ".join(caught)
            if missed:
                text += f" (not by {', '.join(missed)})"
        elif r:
            text = "MISSED by " + ", ".join(missed + incon)
        else:
            text = "not run against the checks in this session (demonstration confirmed only)"
    json.dump({
        "seed": sid, "breaks_property": pid, "needs_to_manifest": needs, "caught_by": text,
        "demo": {"with_change_rc": demos.get(sid, ("?", "?"))[0], "unchanged_rc": demos.get(sid, ("?", "?"))[1]},
        "quick_tier_exit_codes": r,
        "what_was_run": [
            "seeddemo.sh: in the sub-agent's scratch worktree (at /repo's HEAD of that moment): git apply patch.diff; cargo test --offline --test seed_demo_<x> => fails (demo_with_change.log); git checkout -- src; same command => passes (demo_unchanged.log)",
            "seedcheck.sh: git -C /repo apply patch.diff; ./check <id> quick (evidence redirected away from /verif/evidence) => exit code and VIOLATION lines in check_<id>.log; git -C /repo checkout -- .",
        ],
        "check_logs": sorted(os.path.basename(p) for p in glob.glob(d + "/check_*.log")),
        "origin": "independent sub-agent given only the property text, the list of ideas used in rounds 1-2 and a scratch worktree",
    }, open(d + "/meta.json", "w"), indent=1)
print("ok")
