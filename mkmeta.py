#!/usr/bin/env python3
"""mkmeta.py <Cxx> <a|b> <needs> <caught_by>  -> seeded/<Cxx>_<x>/meta.json"""
import json, sys, glob, os
pid, x, needs, caught = sys.argv[1:5]
d = f"/verif/seeded/{pid}_{x}"
json.dump({
 "seed": f"{pid}_{x}", "breaks_property": pid, "needs_to_manifest": needs, "caught_by": caught,
 "what_was_run": [
  f"in the sub-agent's scratch worktree: git apply patch.diff; cargo test --offline --test seed_demo_{x}  => fails (demo_with_change.log); git checkout -- src; same command => passes (demo_unchanged.log)",
  "in a scratch worktree at /repo's current HEAD: same with the patch applied => fails (demo_head_with_change.log)",
  "git -C /repo apply patch.diff; ./check <id> quick => exit 1 with VIOLATION lines (check_<id>.log); git -C /repo checkout -- ."],
 "check_logs": sorted(os.path.basename(p) for p in glob.glob(d + "/check_*.log")),
 "origin": "independent sub-agent given only the property text and a scratch worktree"}, open(d + "/meta.json", "w"), indent=1)
