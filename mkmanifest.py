#!/usr/bin/env python3
"""Writes MANIFEST.json from the table below (kept in one place so it stays valid)."""
import json
import subprocess

HOOK_COMMITS = subprocess.check_output(
    ["git", "-C", "/repo", "log", "--format=%h %s", "--grep=^verif hooks"], text=True
).strip().splitlines()

# id -> (level, technique, design_ref, text, note)
CHECKS = {
    "C01": ("exploration", "property-based testing: proptest-generated (data recipe, options, framing, write plan) cases, round-trip oracle, both build profiles; thorough tier adds a coverage-guided libFuzzer + ASan campaign (fuzz_roundtrip)",
            "DESIGN.md 3/C01",
            "Generated search over data recipes x in-range option vectors x framings x write partitions x position bias with an inverse (round-trip) oracle and panic capture in a checked (debug assertions + overflow checks) and a release build; coverage classes (window move, renormalisation, LZMA2 chunk kinds, restart, preset dictionary) are measured and floored. Finds violations, never proves absence.",
            "Trusts the harness's LZMA2 chunk walker for classification only; dictionaries > 64 MiB and real > 2 GiB inputs are replaced by the position-bias hook."),
    "C02": ("exploration", "property-based testing: proptest-generated (data, XZ/LZIP container options, write plan) cases, round-trip oracle plus independent format walker",
            "DESIGN.md 3/C02",
            "Generated search over data recipes x {check type, block/member size, 0-3 pre-filters, LZMA options, representable and non-representable dictionary sizes} x write partitions; oracle: the crate's own reader returns exactly the input, and the harness's own XZ/LZIP walker agrees on the total size. Checked and release builds. One recorded finding (BCJWriter receiving several writes) is excluded by signature and counted.",
            "The format walkers are harness code (cross-checked against liblzma in C03). Dictionaries above 64 MiB are not instantiated."),
    "C03": ("exploration", "differential property-based testing against liblzma (in-process), both directions",
            "DESIGN.md 3/C03",
            "Generated search: every stream the crate writes (narrowed to what the reference can decode at all) must be accepted, fully consumed and decoded to the input by liblzma; every stream liblzma writes (presets, custom options with all match finders, filter chains, check types, multi-block via full flush and via the MT encoder with size fields, .lzma, raw LZMA2+filters, wrapped LZIP) must decode with the crate to the input; raw LZMA1 / LZMA2 with a preset dictionary related to the input are exchanged in both directions.",
            "liblzma 5.8 static is the trusted reference; no independent LZIP encoder exists in the sandbox (wrapped LZMA1 streams are used); the narrowing of ours->ref is listed in the evidence assumptions."),
    "C12": ("exploration", "model-based property testing: generated sequences of streams/members and paddings, liblzma (LZMA_CONCATENATED) and the concatenation of contents as reference model",
            "DESIGN.md 3/C12",
            "Generated sequences of 1-6 XZ streams (written by the crate or by liblzma) with valid and invalid stream padding, multi-stream on and off, and of 1-8 LZIP members with optional trailing bytes (ST reader, MT reader on real threads); the reference decides well-formedness, the model is the concatenation of the contents.",
            "liblzma decides which paddings are well-formed; the LZIP model is the harness's own concatenation."),
    "C16": ("exploration", "property-based testing: generated stream + trailing bytes + read-size sequences, position oracle on the underlying Cursor",
            "DESIGN.md 3/C16",
            "Generated valid LZMA (five framings), LZMA2 and single-stream XZ streams followed by nothing / zeros / random bytes / another stream, read with generated buffer-size sequences; after end of stream the source must stand exactly at the first trailing byte and the decoded bytes must equal the input.",
            "A reader told the size of a stream that also carries an end marker may leave the marker unread (as liblzma does); that case only requires position <= stream end."),
    "C05": ("fault_enumeration", "fault enumeration inside proptest-generated cases: every truncation point and every read/write-call index of small streams, scripted short/interrupted I/O",
            "DESIGN.md 3/C05",
            "For generated small inputs and every reader/writer target the fault points are enumerated: all truncation offsets (<= 4 KiB streams, sampled beyond), all read-call and write-call indices (<= 400 calls, sampled beyond) x four error kinds, short-read/short-write cycles, Interrupted at generated positions, short reads combined with an Interrupted every 2-5 calls; XZ reader cases also as two-stream files with stream padding read with multi-stream decoding. Oracles: truncation => Err unless the clean run never needed the bytes; reached I/O error => Err of the same kind; short/interrupted I/O => identical bytes; sink error => some writer call fails.",
            "MT readers/writers are covered by C09; BCJ/Delta streams have no framing so truncation is not applied to them; one recorded finding (empty source decodes as empty LZIP file, forced by the pinned test suite)."),
    "C07": ("exploration", "stateful property-based testing: generated write/empty-write/flush histories and read-size sequences, in-memory concatenation as model",
            "DESIGN.md 3/C07",
            "Generated histories (cycles of Write(n) / Write(empty) / Flush partitioning a generated input) for LZMAWriter, LZMA2Writer, XZWriter, LZIPWriter, the eight BCJWriters and DeltaWriter, and generated destination-size sequences (incl. 0 and 1) for every reader and filter reader. Oracles: the stream decodes to the concatenation of the slices; filter writers emit exactly the single-write bytes; reader output is independent of the size sequence; a zero-length read returns Ok(0) and disturbs nothing.",
            "MT writers' partition independence is checked under the deterministic scheduler in C08/C13; the BCJWriter multi-write finding is recorded and excluded by signature."),
    "C11": ("exploration", "property-based testing: round-trip plus differential against liblzma's filters; BCJ2 against a reference encoder written for the harness",
            "DESIGN.md 3/C11 and appendix B",
            "Generated byte strings (opcode-dense synthetic code per architecture, slices of real executables, random, lengths around 4096*k and tiny) x aligned start offsets incl. near 2^31/2^32 x delta distances: reader(writer(x)) == x, writer(x) == liblzma's filter output, reader(y) == liblzma's inverse filter output on arbitrary y. BCJ2Reader must reconstruct x from the four streams of the harness's reference encoder for generated convert decisions, stream chunkings and read sizes.",
            "liblzma filters are the reference; the BCJ2 reference encoder is harness code validated per case by a second naive decoder."),
    "C04": ("exploration", "mutation-based property testing: enumerated bit flips / region edits / structure-aware field edits with CRC fix-up on generated base files, differential arbitration by liblzma",
            "DESIGN.md 3/C04",
            "Generated XZ (three check types, 1-3 blocks, crate-written or liblzma fixtures) and LZIP (1-3 members) base files; inside a case the mutants are enumerated: every single-bit flip (exhaustive for bases <= 600 bytes), byte substitutions, region delete/duplicate/insert/swap, edits of every structural field found by the harness's walker with and without recomputing the enclosing CRC32, non-format garbage. The reader must fail or return exactly the original; success with other bytes is a violation unless liblzma accepts the mutant with the same bytes.",
            "liblzma arbitrates 'different valid file'; LZIPReaderMT on corrupt input belongs to C09."),
    "C06": ("exploration", "structure-aware fuzzing with proptest generators: mutated valid streams (CRC fix-up) and hostile caller parameters, panic/abort/memory/time monitors; thorough tier adds a coverage-guided libFuzzer + ASan campaign (fuzz_decode)",
            "DESIGN.md 3/C06",
            "Generated (decoder, caller parameters, mutated or random input) cases for LZMA (header and raw with any props byte / dictionary / declared size), LZMA2, XZ (multi on/off), LZIP, BCJ x8, Delta, BCJ2; every read call, including one after an error, must return; panics and shadow assertions are caught, aborts/stack overflows are detected through the shard journal and confirmed in isolation, peak heap is bounded by declared dictionary + 8 MiB + 4 x input, a case may take at most 20 s (hangs: watchdog + isolation re-run).",
            "The MT readers run here on real threads (their schedules are explored in C09); the accounting allocator measures Rust allocations of the process."),
    "C08": ("exploration", "schedule exploration with the shuttle deterministic scheduler (random, PCT, round robin) over proptest-generated scenarios; single-threaded path as reference model",
            "DESIGN.md 3/C08",
            "Generated scenarios (data, options, LZMA2/LZIP, unit sizes, worker counts 1-5, write plans, read sizes, stream source: MT writer with and without flush, ST writer with independent units, one unit of dependent chunks, preset dictionary, trailing bytes) each run under 40 (quick) / 300 (thorough) seeded schedules; MT-written streams must decode with the ST and the MT reader to the written bytes, the MT reader must return what the ST reader returns.",
            "shuttle is sequentially consistent and interleaves only at synchronisation operations; failing scenarios are reported unshrunk with scheduler kind and seed; one recorded finding (LZIPReaderMT and trailing data)."),
    "C09": ("exploration", "schedule exploration (shuttle) x fault injection over generated scenarios; dead-lock detection and step bound decide termination",
            "DESIGN.md 3/C09",
            "Generated scenarios x faults (none, byte damage, truncation, zero-length input, missing LZMA2 terminator, source error at read call j, sink error at write call j) x 30/300 seeded schedules for LZMA2ReaderMT, LZIPReaderMT, LZMA2WriterMT, LZIPWriterMT. The scheduler reports dead-locks exactly; more than 3M scheduling points counts as non-termination. Outcome must be Err or Ok with exactly the data (raw LZMA2 payload damage: the ST reader's verdict is the model); reached I/O errors keep their kind.",
            "Liveness = dead-lock freedom + step bound under randomised/PCT/round-robin schedules; sequentially consistent scheduler."),
    "C10": ("exploration", "schedule exploration (shuttle random/PCT/round robin, bounded DFS for the work queue) over generated drop/finish histories",
            "DESIGN.md 3/C10",
            "Generated histories: construct with max_workers in {0,1-6,300}, run a prefix of a read/write history (nothing, partial, to the end, up to an error), then drop or finish, under 60/600 seeded schedules; the scheduler reports every task left blocked after the scenario returned (leaked thread) and a blocked drop/finish as dead-lock; spawned workers are counted against clamp(max_workers,1,256). The work queue alone (0-2 items, 1-2 consumers, close before/after push) is explored by depth-first search with an iteration cap; items must be stolen exactly once or stay queued.",
            "Sequentially consistent scheduler; DFS runs are exhaustive only when they finish below the cap (class queue_dfs counts them)."),
    "C18": ("exploration", "property-based testing with the harness's own format walkers as layout oracle (XZ index, LZIP trailers, LZMA2 chunk headers)",
            "DESIGN.md 3/C18",
            "Generated data x block/member/chunk sizes below, at and above the dictionary x write plans with one huge write or many tiny ones: every XZ block / LZIP member holds at most max(size, dict) bytes, MT writers (real threads) cut units of exactly that size except the last, chunk_count()/member_count() equal the number of independent units; LZMAWriter with an expected size rejects writes beyond it, refuses to finish short of it, and stores exactly the bytes written in the header.",
            "The walkers are harness code (validated against liblzma in C03); schedule independence of the MT layout is C13's."),
    "C19": ("exploration", "boundary-grid property testing: option vectors with 0-2 fields moved to grid values outside the documented ranges, round-trip-or-error oracle",
            "DESIGN.md 3/C19",
            "Every writer (LZMAWriter 4 framings, LZMA2Writer, XZWriter with 0-5 wild pre-filters, LZIPWriter, MT writers) with option vectors from the boundary grid (dict_size, lc, lp, pb, lc+lp, nice_len, depth, preset dictionary none/empty/short/long, unit sizes 1..u64::MAX, delta distances, unaligned BCJ offsets): construct + write + finish must return Err somewhere or produce a stream the corresponding reader (configured from the same options) decodes to the written bytes; never a panic.",
            "Dictionaries above 64 MiB are not instantiated."),
    "C13": ("exploration", "metamorphic property testing: identical output across executions that differ in write partition, heap history / junk-filled allocator, worker count and (shuttle) thread schedule",
            "DESIGN.md 3/C13",
            "Generated (data, options) compressed 2-4 times: different write partitions (LZMA, LZIP, MT writers; LZMA2/XZ without chunk/block size), different heap histories with fresh memory filled with 0xA5 and freed memory with 0x5A, worker counts 1-6, and in the scheduler build 20 seeded schedules per case; all outputs must be byte-identical and MT output must equal the concatenation of the single-threaded encodings of the fixed-size units.",
            "Three builds share the check (checked, release on real threads; scheduler build for schedules); sequentially consistent scheduler."),
    "C14": ("exploration", "differential property testing across four feature builds (std/no_std x optimization on/off) of a worker crate; seeded case list from the proptest strategies, transcripts compared line by line, normalisation against max(p-offset,0)",
            "DESIGN.md 3/C14",
            "A seeded case list (encoder runs with position bias / window moves / long matches, decoder runs over damaged and shortened streams, i32 normalisation arrays) is run through four builds of /verif/featx; compressed bytes (size+hash), decoded bytes (count+hash) and error class must be identical in all four, and normalize_scalar == normalize dispatch == max(p - offset, 0).",
            "x86_64 only: the aarch64 assembly / NEON paths are not compiled here. Cases are generated, not shrunk (the failing case is already a single small input)."),
    "C15": ("exploration", "property-based testing / fuzzing of the C01 encoder and C06 hostile-decoder workloads with two out-of-bounds sensors: cfg-gated shadow assertions before every unsafe block and an electric-fence allocator (inaccessible page directly after / before every allocation >= 4 KiB); thorough tier adds libFuzzer + ASan campaigns on both fuzz targets",
            "DESIGN.md 3/C15",
            "Generated encoder cases (all C01 families incl. inputs fitted to end at the physical end of the window buffer, window moves, SIMD renormalisation), hostile decoder inputs (all C06 decoders and mutations), LZMA2 streams with a shortened chunk (direct bits at and beyond the end of the chunk buffer) and normalisation on sub-slices of every alignment; no shadow assertion may fire and the process must not die on a guard page. Release and overflow-checked builds.",
            "x86_64 only (aarch64 assembly / NEON not compiled). Guard pages see strays that leave an allocation >= 4 KiB by less than a page; smaller allocations and strays that stay inside the allocation are covered by the shadow assertions only. A crashing case is reported unshrunk (the case file written before the evaluation is the replay)."),
    "C17": ("exploration", "property-based testing with an accounting global allocator as measuring oracle",
            "DESIGN.md 3/C17",
            "Generated (dict_size, lc, lp, mode, match finder, nice_len) vectors: the peak heap measured by the harness's accounting allocator while constructing and running LZMA2Writer / LZMAWriter / LZMAReader / LZMA2Reader must be <= the estimator's figure, and the figure <= 3 x peak + 512 KiB; LZMAReader::new_mem_limit must refuse with OutOfMemory iff limit < need, before allocating 64 KiB; estimator-only evaluation up to 768 MiB against the harness's closed form of the allocations.",
            "Release build; dictionaries above 16 MiB (quick) / 128 MiB (thorough) are only evaluated through the closed form."),
}

NOT_YET = {
}

REASONS_PENDING = "check under construction in this session; not claimed until its quick tier runs clean on the unchanged tree"

ALL = [f"C{i:02d}" for i in range(1, 20)]


def main():
    checks = []
    na = []
    for pid in ALL:
        if pid in CHECKS:
            level, tech, ref, text, note = CHECKS[pid]
            checks.append({
                "property_id": pid,
                "quick_cmd": f"./check {pid} quick",
                "thorough_cmd": f"./check {pid} thorough",
                "evidence_file": f"evidence/{pid}.json",
                "replay_cmd_template": "./check replay {path}",
                "engine": "featx" if pid == "C14" else "lzv-mt" if pid in ("C08","C09","C10") else ("lzv + lzv-mt" if pid == "C13" else "lzv"),
                "level_claimed": {"category": level, "text": text, "design_ref": ref},
                "level_note": note,
                "technique": tech,
            })
        else:
            na.append({"property_id": pid, "reason": NOT_YET.get(pid, REASONS_PENDING)})
    m = {
        "version": 1,
        "setup_cmd": "./check setup",
        "hooks": {
            "guard": "--cfg lzma_rust2_verif (instrumentation) and --cfg lzma_rust2_verif_shuttle (std::sync/thread -> shuttle)",
            "enable": "RUSTFLAGS='--cfg lzma_rust2_verif [--cfg lzma_rust2_verif_shuttle]' cargo build in /verif/harness (done by ./check)",
            "baseline_off_cmd": "cd /repo && cargo test --offline --no-fail-fast --lib --test lzip --test lzip_mt --test lzip_reference --test lzma --test lzma2 --test lzma2_mt --test xz_reference  # the 179 stable tests of BASELINE.json; regression/multi_writer/xz are in its always-fail set (emptied fixtures)",
            "source_commits": [c.split()[0] for c in HOOK_COMMITS],
            "add_only": True,
        },
        "engines": [
            {"name": "lzv", "path": "harness/", "serves_properties": sorted(CHECKS.keys()),
             "kind_free_text": "Rust binary: proptest strategies + shrinking per case, deterministic seeds, 16 shard processes, liblzma as reference, own format walkers, accounting/fence allocator, fault-injecting I/O"},
            {"name": "lzv-mt", "path": "harness/", "serves_properties": ["C08", "C09", "C10", "C13"],
             "kind_free_text": "the same binary built with --cfg lzma_rust2_verif_shuttle: the crate's std::sync / std::thread are replaced by shuttle, schedules are drawn by seeded Random / PCT / RoundRobin / DFS schedulers"},
            {"name": "libfuzzer", "path": "fuzz/", "serves_properties": ["C01", "C06", "C15"],
             "kind_free_text": "cargo-fuzz project (libFuzzer + AddressSanitizer, nightly, --cfg lzma_rust2_verif): fuzz_decode (all decoders on arbitrary bytes, optional XZ CRC fix-up) and fuzz_roundtrip (arbitrary-decoded options/framing/data grammar, round-trip oracle); run by the thorough tier with -fork=16 for a fixed time, artefacts re-run alone and turned into replay files"},
            {"name": "featx", "path": "featx/", "serves_properties": ["C14"],
             "kind_free_text": "no_std-capable worker crate built four times (std/no_std x optimization on/off); executes the case list produced by `lzv c14gen` and prints one transcript line per case; the driver compares the four transcripts"},
        ],
        "checks": checks,
        "not_applicable": na,
        "notes": "Driver: ./check <Cxx> <quick|thorough>; exit 0/1/2 = held / violation / inconclusive. Known findings: known_findings.json.",
    }
    with open("/verif/MANIFEST.json", "w") as f:
        json.dump(m, f, indent=1)


if __name__ == "__main__":
    main()
