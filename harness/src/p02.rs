//! C02 — XZ and LZIP container round trip.

use proptest::prelude::*;
use serde::{Deserialize, Serialize};

use crate::codec::*;
use crate::cont::*;
use crate::engine::*;
use crate::gen::*;
use crate::walk::{lzip_dict_size, walk_lzip, walk_xz};

#[derive(Clone, Debug, Serialize, Deserialize)]
pub enum Kind {
    Xz(XzCfg),
    Lzip(LzipCfg),
}

#[derive(Clone, Debug, Serialize, Deserialize)]
pub struct Case {
    pub data: Data,
    pub kind: Kind,
    pub plan: Plan,
    pub sizes: Vec<u32>,
}

pub struct C02;

pub fn kind_plan_fix(kind: &Kind, plan: Plan) -> Plan {
    // BCJ filter writers are only given single writes here (multi-write behaviour is C07's)
    match kind {
        Kind::Xz(c) if c.filters.iter().any(|f| f.is_bcj()) => Plan::All,
        _ => plan,
    }
}

fn mk(data: BoxedStrategy<Data>, kind: BoxedStrategy<Kind>) -> BoxedStrategy<Case> {
    (data, kind, plan_strategy(), read_sizes_strategy())
        .prop_map(|(data, kind, plan, sizes)| {
            let plan = kind_plan_fix(&kind, plan);
            Case {
                data,
                kind,
                plan,
                sizes,
            }
        })
        .boxed()
}

/// several dictionaries worth of data (dictionaries in these families are 4-16 KiB)
fn multi_unit_data() -> BoxedStrategy<Data> {
    proptest::collection::vec(
        prop_oneof![
            (6000u32..30_000, any::<u64>()).prop_map(|(len, seed)| Seg::Mixed { len, seed }),
            (6000u32..30_000, any::<u64>()).prop_map(|(len, seed)| Seg::Text { len, seed }),
            (3000u32..20_000, any::<u64>()).prop_map(|(len, seed)| Seg::Rand { len, seed }),
            seg_strategy(40_000),
        ],
        3..7,
    )
    .prop_map(|segs| Data { segs })
    .boxed()
}

/// forces a unit size and a write plan that lets the writers cut units
fn multi_unit_case(data: BoxedStrategy<Data>, kind: BoxedStrategy<Kind>) -> BoxedStrategy<Case> {
    (
        data,
        kind,
        prop_oneof![
            piece_size_strategy().prop_map(Plan::Fixed),
            (1000u32..9000).prop_map(Plan::Fixed),
            proptest::collection::vec(piece_size_strategy(), 1..5).prop_map(Plan::Sizes)
        ],
        read_sizes_strategy(),
        1u64..3,
        any::<bool>(),
    )
        .prop_map(|(data, mut kind, plan, sizes, mult, exact)| {
            match &mut kind {
                Kind::Xz(c) => {
                    // BCJ with split writes is the recorded finding; keep delta filters only
                    c.filters.retain(|f| !f.is_bcj());
                    let d = c.opts.dict_size as u64;
                    c.block = Some(if exact { d * mult } else { d * mult - 1 });
                }
                Kind::Lzip(c) => {
                    let d = c.opts.dict_size as u64;
                    c.member = Some(if exact { d * mult } else { d * mult - 1 });
                }
            }
            Case {
                data,
                kind,
                plan,
                sizes,
            }
        })
        .boxed()
}

fn code_data() -> BoxedStrategy<Data> {
    proptest::collection::vec(
        prop_oneof![
            (100u32..30_000, 0u8..8, any::<u64>()).prop_map(|(len, arch, seed)| Seg::Opcode { len, arch, seed }),
            (100u32..30_000, 0u8..8, any::<u32>()).prop_map(|(len, file, off)| Seg::Exe { len, file, off }),
            seg_strategy(5000),
        ],
        1..4,
    )
    .prop_map(|segs| Data { segs })
    .boxed()
}

impl Property for C02 {
    type Case = Case;
    const ID: &'static str = "C02";

    fn families(_tier: Tier) -> u32 {
        14
    }

    fn strategy(tier: Tier, family: u32) -> BoxedStrategy<Case> {
        let max_dict = tier.pick(4 << 20, 64 << 20);
        let xz = |md: u32| xz_cfg_strategy(md).prop_map(Kind::Xz).boxed();
        let lz = |md: u32| lzip_cfg_strategy(md).prop_map(Kind::Lzip).boxed();
        match family {
            0 | 1 => mk(data_strategy(5, tier.pick(30_000, 300_000)), xz(max_dict)),
            // multi-block: small dictionary, several dictionaries worth of data
            2 | 3 => multi_unit_case(multi_unit_data(), xz(16_384)),
            // filters on code-like data
            4 | 5 => mk(
                code_data(),
                (xz_cfg_strategy(1 << 20), proptest::collection::vec(filter_strategy(), 1..=3))
                    .prop_map(|(mut c, f)| {
                        c.filters = f;
                        Kind::Xz(c)
                    })
                    .boxed(),
            ),
            6 | 7 => mk(data_strategy(5, tier.pick(30_000, 300_000)), lz(max_dict)),
            8 | 9 => multi_unit_case(multi_unit_data(), lz(16_384)),
            // tiny inputs incl. empty
            // more than 127 blocks / members: multi-byte record count in the XZ index, long member lists
            12 => (
                (520_000u32..700_000, any::<u64>(), 1u16..400, any::<bool>()),
                prop_oneof![xz(4096), lz(4096)],
                read_sizes_strategy(),
                prop_oneof![Just(4096u32), Just(4095), 1000u32..9000],
            )
                .prop_map(|((len, seed, period, text), mut kind, sizes, piece)| {
                    let data = Data {
                        segs: vec![if text { Seg::Text { len, seed } } else { Seg::Periodic { len, period, seed } }],
                    };
                    match &mut kind {
                        Kind::Xz(c) => {
                            c.filters.retain(|f| !f.is_bcj());
                            c.opts.dict_size = 4096;
                            c.opts.mode = 0;
                            c.block = Some(4096);
                        }
                        Kind::Lzip(c) => {
                            c.opts.dict_size = 4096;
                            c.opts.mode = 0;
                            c.member = Some(4096);
                        }
                    }
                    Case {
                        data,
                        kind,
                        plan: Plan::Fixed(piece),
                        sizes,
                    }
                })
                .boxed(),
            // blocks / members that open with stored (incompressible) LZMA2 chunks which later data copies from
            13 => (
                proptest::collection::vec(
                    (
                        66_000u32..120_000,
                        any::<u64>(),
                        proptest::collection::vec((300u32..6000, 200u32..64_000), 1..4),
                        500u32..8000,
                    ),
                    1..4,
                ),
                prop_oneof![xz(1 << 20), lz(1 << 20)],
                prop_oneof![Just(0u8), Just(1u8), Just(2u8)],
                plan_strategy(),
                read_sizes_strategy(),
            )
                .prop_map(|(stretches, mut kind, cut, plan, sizes)| {
                    let mut segs = Vec::new();
                    let mut first = 0u64;
                    for (i, (noise, seed, copies, text)) in stretches.iter().enumerate() {
                        segs.push(Seg::Rand { len: *noise, seed: *seed });
                        let mut n = *noise as u64;
                        for (len, dist) in copies {
                            segs.push(Seg::CopyBack { len: *len, dist: *dist });
                            n += *len as u64;
                        }
                        segs.push(Seg::Text { len: *text, seed: *seed ^ 1 });
                        n += *text as u64;
                        if i == 0 {
                            first = n;
                        }
                    }
                    // unit boundary: none / right behind the first stretch (the next unit opens with noise) / inside it
                    let unit = match cut {
                        0 => None,
                        1 => Some(first),
                        _ => Some(first / 2),
                    };
                    match &mut kind {
                        Kind::Xz(c) => {
                            c.filters.clear();
                            c.opts.dict_size = c.opts.dict_size.max(128 << 10);
                            c.block = unit.map(|u| u.max(c.opts.dict_size as u64));
                        }
                        Kind::Lzip(c) => {
                            c.opts.dict_size = c.opts.dict_size.max(128 << 10);
                            c.member = unit.map(|u| u.max(c.opts.dict_size as u64));
                        }
                    }
                    Case {
                        data: Data { segs },
                        kind,
                        plan,
                        sizes,
                    }
                })
                .boxed(),
            10 => mk(
                prop_oneof![Just(Data::default()), data_strategy(1, 3)].boxed(),
                prop_oneof![xz(1 << 20), lz(1 << 20)].boxed(),
            ),
            _ => mk(small_data_strategy(), prop_oneof![xz(max_dict), lz(max_dict)].boxed()),
        }
    }

    fn budget(tier: Tier) -> u64 {
        tier.pick(40_000, 22_000)
    }

    fn rule() -> &'static str {
        "case = (data recipe, XZ {check, block_size, 0-3 pre-filters, LZMA options} or LZIP {dict_size, member_size, LZMA options}, write plan, read sizes); oracle: the crate's own reader returns exactly the written bytes; the harness's format walker must agree with the data length where it can parse the file. Non-trivial = >= 2 blocks/members, or >= 1 pre-filter on >= 16 bytes, or a dictionary size the container header cannot represent exactly. Distinct = hash of the case recipe."
    }

    fn floors(_tier: Tier) -> Vec<(&'static str, f64)> {
        vec![
            ("multi_unit", 15.0),
            ("units_128_plus", 2.0),
            ("filters", 15.0),
            ("check_none", 5.0),
            ("check_crc32", 5.0),
            ("check_crc64", 5.0),
            ("check_sha256", 5.0),
            ("lzip", 20.0),
            ("empty", 1.0),
            ("dict_not_representable", 5.0),
            ("stored_then_copy", 3.0),
        ]
    }

    fn known(case: &Case, f: &Failure) -> Option<&'static str> {
        if let Kind::Xz(cfg) = &case.kind {
            if f.sig.starts_with("xz-roundtrip")
                && bcj_multiwrite_region(&cfg.filters, case.plan.is_multi(case.data.total_len()))
            {
                return Some("KF-BCJW-MULTIWRITE");
            }
        }
        None
    }

    fn run(case: &Case, obs: &mut Obs) -> Outcome {
        let data = case.data.expand();
        obs.class_if(data.is_empty(), "empty");
        obs.class_if(case.plan.is_multi(data.len()), "multiwrite");
        obs.class_if(
            matches!(case.data.segs.as_slice(), [Seg::Rand { len, .. }, Seg::CopyBack { .. }, ..] if *len >= 66_000),
            "stored_then_copy",
        );
        let cap = data.len() + (1 << 20);
        match &case.kind {
            Kind::Xz(cfg) => {
                obs.class("xz");
                obs.class(["check_none", "check_crc32", "check_crc64", "check_sha256"][cfg.check as usize % 4]);
                let packed = encode_xz(&data, cfg, &case.plan)?;
                let w = walk_xz(&packed);
                let mut blocks = 0usize;
                if w.error.is_none() && w.streams.len() == 1 {
                    blocks = w.streams[0].blocks.len();
                    let sum: u64 = w.streams[0].blocks.iter().map(|b| b.uncompressed_size).sum();
                    if sum != data.len() as u64 {
                        return Err(Failure::new(
                            "xz-index-sum",
                            format!("index says {sum} uncompressed bytes, {} were written", data.len()),
                        ));
                    }
                } else {
                    obs.class("xz_walker_rejected");
                }
                let d = cfg.opts.dict_size;
                let representable = d.is_power_of_two() || (d % 3 == 0 && (d / 3).is_power_of_two());
                obs.class_if(!representable, "dict_not_representable");
                obs.class_if(blocks >= 2, "multi_unit");
                obs.class_if(blocks >= 128, "units_128_plus");
                obs.class_if(!cfg.filters.is_empty(), "filters");
                obs.nontrivial = blocks >= 2 || (!cfg.filters.is_empty() && data.len() >= 16) || (!representable && !data.is_empty());
                match decode_xz(&packed, false, &case.sizes, cap)? {
                    Ok(out) if out == data => Ok(()),
                    Ok(out) => Err(Failure::new("xz-roundtrip-mismatch", first_diff(&out, &data))),
                    Err(e) => Err(Failure::new("xz-roundtrip-decode-error", format!("{e} (input {} bytes, {} blocks)", data.len(), blocks))),
                }
            }
            Kind::Lzip(cfg) => {
                obs.class("lzip");
                let packed = encode_lzip(&data, cfg, &case.plan)?;
                let w = walk_lzip(&packed);
                if w.error.is_some() || w.trailing_at != packed.len() {
                    return Err(Failure::new("lzip-structure", format!("member walk failed: {:?}", w.error)));
                }
                let sum: u64 = w.members.iter().map(|m| m.data_size).sum();
                if sum != data.len() as u64 {
                    return Err(Failure::new(
                        "lzip-member-sum",
                        format!("members declare {sum} bytes, {} were written", data.len()),
                    ));
                }
                let d = cfg.opts.dict_size;
                let representable = (0..8u32).any(|k| {
                    let n = 32 - (d - 1).leading_zeros();
                    n >= 12 && n <= 29 && (1u64 << n) - (k as u64) * (1u64 << (n - 4)) == d as u64
                }) || d.is_power_of_two();
                // the header must announce a dictionary at least as large as the one searched
                if let Some(m) = w.members.first() {
                    if let Some(hd) = lzip_dict_size(m.dict_byte) {
                        if hd < d {
                            obs.notes.push(format!("lzip header dict {hd} < encoder dict {d}"));
                        }
                    }
                }
                obs.class_if(!representable, "dict_not_representable");
                obs.class_if(w.members.len() >= 2, "multi_unit");
                obs.class_if(w.members.len() >= 128, "units_128_plus");
                obs.nontrivial = w.members.len() >= 2 || (!representable && data.len() > 16);
                match decode_lzip(&packed, &case.sizes, cap)? {
                    Ok(out) if out == data => Ok(()),
                    Ok(out) => Err(Failure::new("lzip-roundtrip-mismatch", first_diff(&out, &data))),
                    Err(e) => Err(Failure::new(
                        "lzip-roundtrip-decode-error",
                        format!("{e} (input {} bytes, {} members, dict {})", data.len(), w.members.len(), d),
                    )),
                }
            }
        }
    }
}
