//! Helpers that drive the crate's writers and readers the way a caller would.

use std::io::{self, Read, Write};
use std::num::NonZeroU64;

use lzma_rust2::{CheckType, LZMA2Options, LZMA2Reader, LZMA2Writer, LZMAReader, LZMAWriter};
use serde::{Deserialize, Serialize};

use crate::engine::{no_panic, Failure};
use crate::gen::{Opts, Plan};

pub const OUT_CAP: usize = 96 << 20;

/// Reads until EOF or error with the given cycle of destination sizes (0 = zero-length read).
/// Output is capped at `cap` bytes (Err(Other "cap") beyond).
pub fn read_all<R: Read>(r: &mut R, sizes: &[u32], cap: usize) -> io::Result<Vec<u8>> {
    let mut out = Vec::new();
    // a cycle consisting only of zero-length reads gets one big read appended
    let all_zero = !sizes.is_empty() && sizes.iter().all(|&s| s == 0);
    let mut owned: Vec<u32> = sizes.to_vec();
    if all_zero {
        owned.push(65_536);
    }
    let sizes: &[u32] = &owned;
    let mut buf = vec![0u8; sizes.iter().copied().max().unwrap_or(65_536).max(1) as usize];
    let mut i = 0usize;
    let mut interrupted = 0u32;
    let mut zero_reads = 0u32;
    loop {
        let want = if sizes.is_empty() {
            buf.len()
        } else {
            sizes[i % sizes.len()] as usize
        };
        i += 1;
        if want == 0 {
            zero_reads += 1;
            let n = match r.read(&mut buf[..0]) {
                Ok(n) => n,
                Err(e) if e.kind() == io::ErrorKind::Interrupted => 0,
                Err(e) => return Err(e),
            };
            if n != 0 {
                return Err(io::Error::other("zero-length read returned bytes"));
            }
            if zero_reads > 10_000_000 {
                return Err(io::Error::other("VERIF-ZERO-READ-LOOP"));
            }
            continue;
        }
        match r.read(&mut buf[..want]) {
            Ok(0) => return Ok(out),
            Ok(n) => {
                if n > want {
                    return Err(io::Error::other("read returned more than the buffer holds"));
                }
                // a sticky Interrupted is a run of them: progress in between resets the count
                interrupted = 0;
                out.extend_from_slice(&buf[..n]);
                if out.len() > cap {
                    return Err(io::Error::other("VERIF-CAP"));
                }
            }
            Err(e) if e.kind() == io::ErrorKind::Interrupted => {
                interrupted += 1;
                if interrupted > 1000 {
                    return Err(io::Error::other("VERIF-STICKY-INTERRUPTED"));
                }
            }
            Err(e) => return Err(e),
        }
    }
}

pub fn write_plan<W: Write>(w: &mut W, data: &[u8], plan: &Plan) -> io::Result<()> {
    for p in plan.pieces(data) {
        w.write_all(p)?;
    }
    Ok(())
}

#[derive(Clone, Debug, Serialize, Deserialize, PartialEq)]
pub enum Framing {
    /// .lzma header, unknown size, end marker
    HeaderEos,
    /// .lzma header with the size, no end marker
    HeaderSized,
    /// raw, end marker, reader is told u64::MAX
    RawEos,
    /// raw, no end marker, reader is told the size
    RawSized,
    /// raw, end marker present and reader is told the size
    RawSizedEos,
    /// LZMA2 with optional independent chunk size
    Lzma2 { chunk: Option<u64> },
}

fn io_fail(what: &str, e: io::Error) -> Failure {
    Failure::new(format!("{what}:{:?}", e.kind()), format!("{what}: {e}"))
}

/// Encodes with LZMAWriter / LZMA2Writer. Panics are converted.
pub fn encode_lzma(
    data: &[u8],
    opts: &Opts,
    preset: Option<&[u8]>,
    framing: &Framing,
    plan: &Plan,
) -> Result<Vec<u8>, Failure> {
    let mut o = opts.to_lzma();
    o.preset_dict = preset.map(|p| p.to_vec());
    no_panic("encode", || -> Result<Vec<u8>, Failure> {
        match framing {
            Framing::Lzma2 { chunk } => {
                let mut l2 = LZMA2Options {
                    lzma_options: o,
                    chunk_size: None,
                };
                l2.set_chunk_size(chunk.and_then(NonZeroU64::new));
                let mut w = LZMA2Writer::new(Vec::new(), l2);
                write_plan(&mut w, data, plan).map_err(|e| io_fail("enc-write", e))?;
                w.finish().map_err(|e| io_fail("enc-finish", e))
            }
            f => {
                let (hdr, eos, size) = match f {
                    Framing::HeaderEos => (true, true, None),
                    Framing::HeaderSized => (true, false, Some(data.len() as u64)),
                    Framing::RawEos => (false, true, None),
                    Framing::RawSized => (false, false, None),
                    Framing::RawSizedEos => (false, true, None),
                    Framing::Lzma2 { .. } => unreachable!(),
                };
                let mut w = LZMAWriter::new(Vec::new(), &o, hdr, eos, size)
                    .map_err(|e| io_fail("enc-new", e))?;
                write_plan(&mut w, data, plan).map_err(|e| io_fail("enc-write", e))?;
                w.finish().map_err(|e| io_fail("enc-finish", e))
            }
        }
    })?
}

/// Decodes with the matching reader.
pub fn decode_lzma(
    stream: &[u8],
    orig_len: usize,
    opts: &Opts,
    preset: Option<&[u8]>,
    framing: &Framing,
    sizes: &[u32],
) -> Result<io::Result<Vec<u8>>, Failure> {
    let cap = orig_len + (1 << 20);
    no_panic("decode", || -> io::Result<Vec<u8>> {
        match framing {
            Framing::Lzma2 { .. } => {
                let mut r = LZMA2Reader::new(stream, opts.dict_size, preset);
                read_all(&mut r, sizes, cap)
            }
            Framing::HeaderEos | Framing::HeaderSized => {
                let mut r = LZMAReader::new_mem_limit(stream, u32::MAX, preset)?;
                read_all(&mut r, sizes, cap)
            }
            Framing::RawEos => {
                let mut r = LZMAReader::new(stream, u64::MAX, opts.lc, opts.lp, opts.pb, opts.dict_size, preset)?;
                read_all(&mut r, sizes, cap)
            }
            Framing::RawSized | Framing::RawSizedEos => {
                let mut r = LZMAReader::new_with_props(stream, orig_len as u64, opts.props(), opts.dict_size, preset)?;
                read_all(&mut r, sizes, cap)
            }
        }
    })
}

/// first position where two byte strings differ
pub fn first_diff(a: &[u8], b: &[u8]) -> String {
    let n = a.len().min(b.len());
    for i in 0..n {
        if a[i] != b[i] {
            return format!("first difference at {i} (lens {} vs {})", a.len(), b.len());
        }
    }
    format!("common prefix, lens {} vs {}", a.len(), b.len())
}

pub fn check_type(c: u8) -> CheckType {
    match c % 4 {
        0 => CheckType::None,
        1 => CheckType::Crc32,
        2 => CheckType::Crc64,
        _ => CheckType::Sha256,
    }
}

/// Makes the input end `delta` bytes after (before, if negative) the physical end of the LZ window
/// buffer: `encode` is run once, the crate's hook reports how much room was left in the window
/// buffer when the encoder was told to finish, and the input is extended by that many bytes
/// (continuing its last bytes periodically, so that the final match reaches the end) or cut.
/// Returns None when no encoder finished or the gap is too big to be worth it.
pub fn fit_to_window(data: &[u8], delta: i32, max_extra: usize, encode: &dyn Fn(&[u8]) -> bool) -> Option<Vec<u8>> {
    let _ = lzma_rust2::verif_api::take_last_finish_gap();
    if !encode(data) {
        return None;
    }
    let gap = lzma_rust2::verif_api::take_last_finish_gap();
    if gap == u64::MAX || gap as usize > max_extra {
        return None;
    }
    let n = gap as i64 + delta as i64;
    let mut out = data.to_vec();
    if n < 0 {
        let cut = (-n) as usize;
        if cut >= out.len() {
            return None;
        }
        out.truncate(out.len() - cut);
    } else {
        if out.is_empty() {
            out.extend_from_slice(b"window fit ");
        }
        let period = out.len().min(331);
        for _ in 0..n {
            let b = out[out.len() - period];
            out.push(b);
        }
    }
    Some(out)
}
