//! C01 — LZMA / LZMA2 round trip.

use proptest::prelude::*;
use serde::{Deserialize, Serialize};

use crate::codec::*;
use crate::engine::*;
use crate::gen::*;
use crate::walk::walk_lzma2;

#[derive(Clone, Debug, Serialize, Deserialize)]
pub struct Case {
    pub data: Data,
    pub opts: Opts,
    pub preset: Option<Data>,
    pub framing: Framing,
    pub plan: Plan,
    pub sizes: Vec<u32>,
    /// renormalisation happens after this many match finder steps
    pub bias_k: Option<u32>,
    /// Some(d): the input is extended / cut so that it ends d bytes after the physical end of the
    /// LZ window buffer (see codec::fit_to_window)
    #[serde(default)]
    pub fit: Option<i8>,
}

pub struct C01;

fn framing_strategy(dict: u32) -> BoxedStrategy<Framing> {
    prop_oneof![
        1 => Just(Framing::HeaderEos),
        1 => Just(Framing::HeaderSized),
        1 => Just(Framing::RawEos),
        1 => Just(Framing::RawSized),
        1 => Just(Framing::RawSizedEos),
        2 => Just(Framing::Lzma2 { chunk: None }),
        2 => chunk_strategy(dict).prop_map(|c| Framing::Lzma2 { chunk: Some(c) }),
    ]
    .boxed()
}

fn chunk_strategy(dict: u32) -> BoxedStrategy<u64> {
    let d = dict as u64;
    prop_oneof![
        1 => Just(1u64),
        2 => 1u64..=d,
        2 => Just(d),
        2 => (1u64..=4).prop_map(move |k| d * k),
        1 => d..=d * 3 + 7,
    ]
    .boxed()
}

fn preset_strategy() -> BoxedStrategy<Option<Data>> {
    prop_oneof![
        5 => Just(None),
        2 => data_strategy(2, 3000).prop_map(Some),
        1 => data_strategy(2, 80_000).prop_map(Some),
    ]
    .boxed()
}

fn assemble(
    data: BoxedStrategy<Data>,
    opts: BoxedStrategy<Opts>,
    lzma2_only: bool,
    plan: BoxedStrategy<Plan>,
    bias: bool,
) -> BoxedStrategy<Case> {
    (data, opts, preset_strategy(), plan, read_sizes_strategy(), any::<u32>())
        .prop_flat_map(move |(data, opts, preset, plan, sizes, k)| {
            let fr = if lzma2_only || opts.lc + opts.lp > 4 {
                if opts.lc + opts.lp > 4 {
                    prop_oneof![
                        Just(Framing::HeaderEos),
                        Just(Framing::HeaderSized),
                        Just(Framing::RawEos),
                        Just(Framing::RawSized),
                        Just(Framing::RawSizedEos)
                    ]
                    .boxed()
                } else {
                    prop_oneof![
                        1 => Just(Framing::Lzma2 { chunk: None }),
                        3 => chunk_strategy(opts.dict_size).prop_map(|c| Framing::Lzma2 { chunk: Some(c) }),
                    ]
                    .boxed()
                }
            } else {
                framing_strategy(opts.dict_size)
            };
            let total = data.total_len().max(1) as u32;
            let bias_k = if bias { Some(k % total) } else { None };
            (Just(data), Just(opts), Just(preset), fr, Just(plan), Just(sizes), Just(bias_k))
        })
        .prop_map(|(data, opts, preset, framing, plan, sizes, bias_k)| {
            // a .lzma header cannot be combined with a preset dictionary (documented: Unsupported)
            let preset = match framing {
                Framing::HeaderEos | Framing::HeaderSized => None,
                _ => preset,
            };
            Case {
                data,
                opts,
                preset,
                framing,
                plan,
                sizes,
                bias_k,
                fit: None,
            }
        })
        .boxed()
}

fn small_dict_opts(lzma2: bool) -> BoxedStrategy<Opts> {
    opts_strategy(65_536, lzma2)
}

/// [>= 66 KB incompressible][copy-backs into it] repeated: makes an independent unit start with
/// an uncompressed chunk that later matches refer to.
fn unit_data() -> BoxedStrategy<Data> {
    proptest::collection::vec(
        (66_000u32..90_000, any::<u64>(), 1u32..60_000, 50u32..3000, any::<u64>()),
        1..4,
    )
    .prop_map(|v| {
        let mut segs = Vec::new();
        for (rl, seed, dist, cl, s2) in v {
            segs.push(Seg::Rand { len: rl, seed });
            segs.push(Seg::CopyBack { len: cl, dist });
            segs.push(Seg::Mixed { len: cl * 3, seed: s2 });
        }
        Data { segs }
    })
    .boxed()
}

impl Property for C01 {
    type Case = Case;
    const ID: &'static str = "C01";

    fn families(_tier: Tier) -> u32 {
        26
    }

    fn strategy(tier: Tier, family: u32) -> BoxedStrategy<Case> {
        let max_dict = tier.pick(4 << 20, 64 << 20);
        match family {
            // general
            0..=6 => assemble(
                data_strategy(6, tier.pick(60_000, 400_000)),
                opts_strategy(max_dict, false),
                false,
                plan_strategy(),
                false,
            ),
            // long incompressible run followed by compressible data, small dictionary
            7..=9 => assemble(
                (
                    prop_oneof![Just(0u32), 150_000u32..400_000],
                    any::<bool>(),
                    70_000u32..140_000,
                    any::<u64>(),
                    data_strategy(3, 30_000),
                )
                    .prop_map(|(pre, pre_rand, len, seed, tail)| {
                        // optional long prefix so that the incompressible run comes after the
                        // sliding window has moved
                        let mut segs = vec![];
                        if pre > 0 {
                            segs.push(if pre_rand {
                                Seg::Rand { len: pre, seed: seed ^ 1 }
                            } else {
                                Seg::Mixed { len: pre, seed: seed ^ 1 }
                            });
                        }
                        segs.push(Seg::Rand { len, seed });
                        segs.extend(tail.segs);
                        Data { segs }
                    })
                    .boxed(),
                small_dict_opts(false),
                false,
                plan_strategy(),
                false,
            ),
            // unit-structured data with a chunk size, many small writes
            10..=12 => assemble(
                unit_data(),
                small_dict_opts(true),
                true,
                prop_oneof![
                    piece_size_strategy().prop_map(Plan::Fixed),
                    (1u32..20_000).prop_map(Plan::Fixed)
                ]
                .boxed(),
                false,
            ),
            // window move: small dictionary, > 300 KB
            13..=15 => assemble(
                (proptest::collection::vec(seg_strategy(120_000), 3..6), 300_000u32..400_000, any::<u64>())
                    .prop_map(|(mut segs, len, seed)| {
                        segs.push(Seg::Mixed { len, seed });
                        Data { segs }
                    })
                    .boxed(),
                opts_strategy(16_384, false),
                false,
                plan_strategy(),
                false,
            ),
            // renormalisation inside the stream
            16..=18 => assemble(
                data_strategy(5, 50_000),
                opts_strategy(1 << 20, false),
                false,
                plan_strategy(),
                true,
            ),
            // the input ends exactly at (or 1-2 bytes around) the physical end of the window buffer
            20 | 21 => (
                assemble(
                    if family == 20 {
                        data_strategy(4, 30_000)
                    } else {
                        (300_000u32..600_000, any::<u64>(), data_strategy(2, 20_000))
                            .prop_map(|(len, seed, tail)| {
                                let mut segs = vec![Seg::Mixed { len, seed }];
                                segs.extend(tail.segs);
                                Data { segs }
                            })
                            .boxed()
                    },
                    small_dict_opts(false),
                    false,
                    plan_strategy(),
                    false,
                ),
                prop_oneof![4 => Just(0i8), 1 => Just(-1i8), 1 => Just(1i8), 1 => -3i8..=3],
            )
                .prop_map(|(mut c, d)| {
                    c.fit = Some(d);
                    c
                })
                .boxed(),
            // about one stored chunk (64 KiB) of incompressible bytes directly followed by low-entropy data: the chunk
            // that does not compress is a little longer than 64 KiB because of the parser's read-ahead, so the stored
            // fallback is split into two pieces
            24 | 25 => assemble(
                (
                    prop_oneof![1 => Just(0u32), 1 => 1000u32..300_000],
                    any::<u64>(),
                    63_800u32..65_800,
                    prop_oneof![
                        (3000u32..40_000, any::<u8>()).prop_map(|(len, byte)| Seg::Const { len, byte }),
                        (3000u32..40_000, 1u16..40, any::<u64>()).prop_map(|(len, period, seed)| Seg::Periodic { len, period, seed }),
                        (3000u32..40_000, 2u8..5, any::<u64>()).prop_map(|(len, alphabet, seed)| Seg::Tiles { len, alphabet, seed }),
                        (3000u32..40_000, any::<u64>()).prop_map(|(len, seed)| Seg::Text { len, seed }),
                    ],
                    data_strategy(2, 20_000),
                )
                    .prop_map(|(pre, seed, noise, low, tail)| {
                        let mut segs = vec![];
                        if pre > 0 {
                            segs.push(Seg::Text { len: pre, seed: seed ^ 3 });
                        }
                        segs.push(Seg::Rand { len: noise, seed });
                        segs.push(low);
                        segs.extend(tail.segs);
                        Data { segs }
                    })
                    .boxed(),
                opts_strategy(1 << 20, true).prop_map(|mut o| {
                    // three quarters in normal mode (the read-ahead of the optimal parser is what makes the chunk long)
                    if o.nice_len % 4 != 0 {
                        o.mode = 1;
                    }
                    o
                })
                .boxed(),
                false,
                plan_strategy(),
                false,
            ),
            // > 2 MiB highly compressible (LZMA2 uncompressed-size chunk limit), behind 0-599 other bytes so that the
            // symbol boundaries of the long run fall on every residue relative to the limit
            _ => assemble(
                (
                    2_100_000u32..2_400_000,
                    prop_oneof![
                        any::<u8>().prop_map(|b| (0u8, b as u64)),
                        any::<u64>().prop_map(|s| (1u8, s)),
                        any::<u64>().prop_map(|s| (2u8, s))
                    ],
                    data_strategy(2, 5000),
                    prop_oneof![1 => Just(0u32), 6 => 1u32..600],
                )
                    .prop_map(|(len, (k, s), tail, prefix)| {
                        let mut segs = vec![];
                        if prefix > 0 {
                            segs.push(Seg::Rand { len: prefix, seed: s ^ 0x55 });
                        }
                        segs.push(match k {
                            0 => Seg::Const { len, byte: s as u8 },
                            1 => Seg::Periodic {
                                len,
                                period: 1 + (s % 300) as u16,
                                seed: s,
                            },
                            _ => Seg::Text { len, seed: s },
                        });
                        segs.extend(tail.segs);
                        Data { segs }
                    })
                    .boxed(),
                opts_strategy(1 << 20, true),
                // the chunk limit is LZMA2's: two of the three families of this kind use the LZMA2 writer only
                family != 19,
                Just(Plan::All).boxed(),
                false,
            ),
        }
    }

    fn budget(tier: Tier) -> u64 {
        tier.pick(10_000, 16_000)
    }

    fn rule() -> &'static str {
        "case = (data recipe, in-range LZMA options, optional preset dictionary, framing, write plan, read sizes, optional position bias); oracle: matching reader returns exactly the written bytes and neither side panics. Non-trivial = input >= 16 bytes and the compressed stream is shorter than the input (so matches were coded). Distinct = 64-bit hash of the case recipe. Classes counted: window_moved, renormalised (hook counters), l2_unc_then_lzma, l2_chunks_no_reset, l2_restart (>= 2 independent units), preset, multiwrite."
    }

    fn floors(tier: Tier) -> Vec<(&'static str, f64)> {
        let _ = tier;
        vec![
            ("window_moved", 0.6),
            ("renormalised", 1.5),
            ("l2_unc_then_lzma", 1.0),
            ("l2_chunks_no_reset", 1.0),
            ("l2_restart", 1.0),
            ("preset", 5.0),
            ("finish_at_window_end", 2.0),
        ]
    }

    fn run(case: &Case, obs: &mut Obs) -> Outcome {
        let mut data = case.data.expand();
        let preset = case.preset.as_ref().map(|p| p.expand());
        let preset = preset.as_deref().filter(|p| !p.is_empty());
        if let Some(d) = case.fit {
            let probe = |bytes: &[u8]| encode_lzma(bytes, &case.opts, preset, &case.framing, &case.plan).is_ok();
            if let Some(fitted) = fit_to_window(&data, d as i32, 1 << 20, &probe) {
                data = fitted;
                obs.class("fitted");
            }
        }

        let _ = crate::engine::take_counters();
        if let Some(k) = case.bias_k {
            let bias = 0x7FFF_FFFFi32
                .wrapping_sub(case.opts.dict_size as i32 + 1)
                .wrapping_sub(k as i32 + 1);
            lzma_rust2::verif_api::set_lz_pos_bias(bias.max(0));
        }
        let packed = encode_lzma(&data, &case.opts, preset, &case.framing, &case.plan);
        lzma_rust2::verif_api::set_lz_pos_bias(0);
        let counters = crate::engine::take_counters();
        let gap = lzma_rust2::verif_api::take_last_finish_gap();
        obs.class_if(gap == 0, "finish_at_window_end");
        let packed = packed?;

        obs.class_if(counters[0] > 0, "window_moved");
        obs.class_if(counters[1] > 0, "renormalised");
        obs.class_if(preset.is_some(), "preset");
        obs.class_if(case.plan.is_multi(data.len()), "multiwrite");
        if let Framing::Lzma2 { .. } = case.framing {
            let w = walk_lzma2(&packed);
            if w.error.is_some() || w.end != Some(packed.len()) {
                return Err(Failure::new(
                    "lzma2-structure",
                    format!("harness walker: {:?} end {:?} len {}", w.error, w.end, packed.len()),
                ));
            }
            obs.class_if(w.has_uncompressed_then_lzma(), "l2_unc_then_lzma");
            obs.class_if(w.lzma_chunks_without_reset() >= 1, "l2_chunks_no_reset");
            obs.class_if(w.units() >= 2, "l2_restart");
            obs.class("lzma2");
        } else {
            obs.class("lzma1");
        }
        obs.nontrivial = data.len() >= 16 && packed.len() < data.len();

        match decode_lzma(&packed, data.len(), &case.opts, preset, &case.framing, &case.sizes)? {
            Ok(out) => {
                if out != data {
                    return Err(Failure::new(
                        "roundtrip-mismatch",
                        format!("{:?}: {}", case.framing, first_diff(&out, &data)),
                    ));
                }
            }
            Err(e) => {
                return Err(Failure::new(
                    "roundtrip-decode-error",
                    format!("{:?}: reader failed on writer output: {e}", case.framing),
                ));
            }
        }
        Ok(())
    }

    fn known(case: &Case, f: &Failure) -> Option<&'static str> {
        let _ = (case, f);
        None
    }
}
