//! Fault-injecting Read / Write / Seek wrappers with call and byte accounting.

use std::cell::RefCell;
use std::io::{self, ErrorKind, Read, Seek, SeekFrom, Write};
use std::rc::Rc;

pub const KINDS: [ErrorKind; 4] = [
    ErrorKind::Other,
    ErrorKind::TimedOut,
    ErrorKind::BrokenPipe,
    ErrorKind::InvalidData,
];

#[derive(Default, Debug, Clone)]
pub struct Stats {
    pub calls: usize,
    pub bytes: usize,
    /// the injected error was actually returned to the code under test
    pub err_reached: bool,
    pub interrupts: usize,
    /// reads that returned Ok(0) because the (possibly truncated) source was exhausted
    pub eof_hits: usize,
}

#[derive(Clone, Default, Debug)]
pub struct ReadScript {
    /// deliver at most this many bytes per call, cycled (empty = unlimited)
    pub max_per_call: Vec<usize>,
    /// return Err(kind) at this call index (0-based)
    pub err_at: Option<(usize, ErrorKind)>,
    /// return Interrupted at these call indices
    pub interrupt_at: Vec<usize>,
    /// > 0: return Interrupted at every call whose index is `every - 1` modulo `every`
    pub interrupt_every: usize,
    /// the source ends here
    pub truncate_at: Option<usize>,
    /// error is sticky (every later call fails too)
    pub sticky: bool,
}

pub struct FaultReader {
    data: Vec<u8>,
    pos: usize,
    script: ReadScript,
    pub stats: Rc<RefCell<Stats>>,
}

impl FaultReader {
    pub fn new(data: &[u8], script: ReadScript) -> (Self, Rc<RefCell<Stats>>) {
        let stats = Rc::new(RefCell::new(Stats::default()));
        let end = script.truncate_at.unwrap_or(data.len()).min(data.len());
        (
            FaultReader {
                data: data[..end].to_vec(),
                pos: 0,
                script,
                stats: stats.clone(),
            },
            stats,
        )
    }
}

impl Read for FaultReader {
    fn read(&mut self, buf: &mut [u8]) -> io::Result<usize> {
        let mut st = self.stats.borrow_mut();
        let call = st.calls;
        st.calls += 1;
        if let Some((at, kind)) = self.script.err_at {
            if call == at || (self.script.sticky && call > at) {
                st.err_reached = true;
                return Err(io::Error::new(kind, "VERIF-INJECTED"));
            }
        }
        if self.script.interrupt_at.contains(&call) || (self.script.interrupt_every > 0 && call % self.script.interrupt_every == self.script.interrupt_every - 1) {
            st.interrupts += 1;
            return Err(io::Error::new(ErrorKind::Interrupted, "VERIF-INTERRUPTED"));
        }
        let mut n = buf.len().min(self.data.len() - self.pos);
        if !self.script.max_per_call.is_empty() {
            let m = self.script.max_per_call[call % self.script.max_per_call.len()].max(1);
            n = n.min(m);
        }
        if n == 0 && !buf.is_empty() {
            st.eof_hits += 1;
        }
        buf[..n].copy_from_slice(&self.data[self.pos..self.pos + n]);
        self.pos += n;
        st.bytes += n;
        Ok(n)
    }
}

impl Seek for FaultReader {
    fn seek(&mut self, pos: SeekFrom) -> io::Result<u64> {
        let len = self.data.len() as i64;
        let np = match pos {
            SeekFrom::Start(p) => p as i64,
            SeekFrom::End(d) => len + d,
            SeekFrom::Current(d) => self.pos as i64 + d,
        };
        if np < 0 {
            return Err(io::Error::new(ErrorKind::InvalidInput, "seek before start"));
        }
        self.pos = (np as usize).min(self.data.len());
        Ok(np as u64)
    }
}

#[derive(Clone, Default, Debug)]
pub struct WriteScript {
    /// accept at most this many bytes per call, cycled (empty = unlimited)
    pub max_per_call: Vec<usize>,
    pub err_at: Option<(usize, ErrorKind)>,
    pub interrupt_at: Vec<usize>,
    /// error at this flush call
    pub flush_err_at: Option<(usize, ErrorKind)>,
}

pub struct FaultWriter {
    pub out: Rc<RefCell<Vec<u8>>>,
    script: WriteScript,
    pub stats: Rc<RefCell<Stats>>,
    flushes: usize,
}

impl FaultWriter {
    pub fn new(script: WriteScript) -> (Self, Rc<RefCell<Vec<u8>>>, Rc<RefCell<Stats>>) {
        let out = Rc::new(RefCell::new(Vec::new()));
        let stats = Rc::new(RefCell::new(Stats::default()));
        (
            FaultWriter {
                out: out.clone(),
                script,
                stats: stats.clone(),
                flushes: 0,
            },
            out,
            stats,
        )
    }
}

impl Write for FaultWriter {
    fn write(&mut self, buf: &[u8]) -> io::Result<usize> {
        let mut st = self.stats.borrow_mut();
        let call = st.calls;
        st.calls += 1;
        if let Some((at, kind)) = self.script.err_at {
            if call >= at {
                st.err_reached = true;
                return Err(io::Error::new(kind, "VERIF-INJECTED"));
            }
        }
        if self.script.interrupt_at.contains(&call) {
            st.interrupts += 1;
            return Err(io::Error::new(ErrorKind::Interrupted, "VERIF-INTERRUPTED"));
        }
        let mut n = buf.len();
        if !self.script.max_per_call.is_empty() && n > 0 {
            let m = self.script.max_per_call[call % self.script.max_per_call.len()].max(1);
            n = n.min(m);
        }
        self.out.borrow_mut().extend_from_slice(&buf[..n]);
        st.bytes += n;
        Ok(n)
    }

    fn flush(&mut self) -> io::Result<()> {
        let f = self.flushes;
        self.flushes += 1;
        if let Some((at, kind)) = self.script.flush_err_at {
            if f >= at {
                self.stats.borrow_mut().err_reached = true;
                return Err(io::Error::new(kind, "VERIF-INJECTED"));
            }
        }
        Ok(())
    }
}
