//! Independent parsers for the container formats (written for the harness; they share no code
//! with /repo). Used to classify streams, to mutate them structure-aware and as layout oracles.

use crate::refimpl::{crc32, crc64};
use sha2::{Digest, Sha256};

#[derive(Debug, Clone, PartialEq)]
pub struct L2Chunk {
    pub offset: usize,
    pub control: u8,
    pub unpacked: usize,
    /// bytes of payload following the chunk header
    pub packed: usize,
    pub header_len: usize,
}

#[derive(Debug, Clone, Default)]
pub struct L2Walk {
    pub chunks: Vec<L2Chunk>,
    /// offset one past the 0x00 terminator, if the stream is terminated
    pub end: Option<usize>,
    pub error: Option<String>,
}

impl L2Walk {
    pub fn total_unpacked(&self) -> usize {
        self.chunks.iter().map(|c| c.unpacked).sum()
    }
    /// number of independent units: chunks that reset the dictionary
    pub fn units(&self) -> usize {
        self.chunks
            .iter()
            .filter(|c| c.control == 0x01 || c.control >= 0xE0)
            .count()
    }
    pub fn has_uncompressed_then_lzma(&self) -> bool {
        self.chunks
            .windows(2)
            .any(|w| w[0].control < 0x80 && w[1].control >= 0x80)
    }
    pub fn lzma_chunks_without_reset(&self) -> usize {
        self.chunks
            .iter()
            .filter(|c| (0x80..0xA0).contains(&c.control))
            .count()
    }
}

pub fn walk_lzma2(data: &[u8]) -> L2Walk {
    let mut w = L2Walk::default();
    let mut p = 0usize;
    loop {
        if p >= data.len() {
            w.error = Some("missing terminator".into());
            return w;
        }
        let c = data[p];
        if c == 0 {
            w.end = Some(p + 1);
            return w;
        }
        if c >= 0x80 {
            let hl = if c >= 0xC0 { 6 } else { 5 };
            if p + hl > data.len() {
                w.error = Some("truncated chunk header".into());
                return w;
            }
            let unpacked = (((c & 0x1F) as usize) << 16) + ((data[p + 1] as usize) << 8) + data[p + 2] as usize + 1;
            let packed = ((data[p + 3] as usize) << 8) + data[p + 4] as usize + 1;
            if p + hl + packed > data.len() {
                w.error = Some("truncated chunk".into());
                return w;
            }
            w.chunks.push(L2Chunk {
                offset: p,
                control: c,
                unpacked,
                packed,
                header_len: hl,
            });
            p += hl + packed;
        } else if c <= 2 {
            if p + 3 > data.len() {
                w.error = Some("truncated chunk header".into());
                return w;
            }
            let n = ((data[p + 1] as usize) << 8) + data[p + 2] as usize + 1;
            if p + 3 + n > data.len() {
                w.error = Some("truncated chunk".into());
                return w;
            }
            w.chunks.push(L2Chunk {
                offset: p,
                control: c,
                unpacked: n,
                packed: n,
                header_len: 3,
            });
            p += 3 + n;
        } else {
            w.error = Some(format!("bad control {c:#x} at {p}"));
            return w;
        }
    }
}

// ---------------------------------------------------------------------------------------------
// LZIP

#[derive(Debug, Clone, PartialEq)]
pub struct LzMember {
    pub offset: usize,
    pub size: usize,
    pub dict_byte: u8,
    pub crc: u32,
    pub data_size: u64,
}

#[derive(Debug, Clone, Default)]
pub struct LzWalk {
    pub members: Vec<LzMember>,
    /// offset where trailing (non-member) data starts
    pub trailing_at: usize,
    pub error: Option<String>,
}

/// Walks an LZIP file backwards-free: uses the member_size field found by scanning forward for a
/// consistent trailer. (Members do not carry their size up front, so the walk uses the trailer
/// of each candidate end; the harness only walks files it produced or liblzma accepted.)
pub fn walk_lzip(data: &[u8]) -> LzWalk {
    // backward walk from the end while the trailer is consistent, tolerating trailing garbage
    // by trying every possible end offset from the back.
    let mut w = LzWalk::default();
    let mut best: Option<(usize, Vec<LzMember>)> = None;
    let mut end = data.len();
    let lowest = data.len().saturating_sub(4096);
    while end >= 26 && end >= lowest {
        if let Some(ms) = walk_back(data, end) {
            best = Some((end, ms));
            break;
        }
        end -= 1;
    }
    match best {
        Some((e, ms)) => {
            w.members = ms;
            w.trailing_at = e;
        }
        None => {
            w.error = Some("no consistent member chain".into());
        }
    }
    w
}

fn walk_back(data: &[u8], mut end: usize) -> Option<Vec<LzMember>> {
    let mut ms = Vec::new();
    while end > 0 {
        if end < 26 {
            return None;
        }
        let t = &data[end - 20..end];
        let crc = u32::from_le_bytes(t[0..4].try_into().unwrap());
        let data_size = u64::from_le_bytes(t[4..12].try_into().unwrap());
        let msize = u64::from_le_bytes(t[12..20].try_into().unwrap());
        if msize < 26 || msize as usize > end {
            return None;
        }
        let start = end - msize as usize;
        if &data[start..start + 4] != b"LZIP" || data[start + 4] != 1 {
            return None;
        }
        ms.push(LzMember {
            offset: start,
            size: msize as usize,
            dict_byte: data[start + 5],
            crc,
            data_size,
        });
        end = start;
    }
    ms.reverse();
    Some(ms)
}

pub fn lzip_dict_size(b: u8) -> Option<u32> {
    let log = (b & 0x1F) as u32;
    let frac = (b >> 5) as u32;
    if !(12..=29).contains(&log) {
        return None;
    }
    let base = 1u32 << log;
    Some(base - (base / 16) * frac)
}

// ---------------------------------------------------------------------------------------------
// XZ

#[derive(Debug, Clone, PartialEq)]
pub struct XzFilter {
    pub id: u64,
    pub props: Vec<u8>,
}

#[derive(Debug, Clone, PartialEq)]
pub struct XzBlock {
    pub offset: usize,
    pub header_size: usize,
    pub flags: u8,
    pub compressed_size_field: Option<u64>,
    pub uncompressed_size_field: Option<u64>,
    pub filters: Vec<XzFilter>,
    /// offset of the compressed payload
    pub data_offset: usize,
    /// from the index
    pub unpadded_size: u64,
    pub uncompressed_size: u64,
    pub padding: usize,
    pub check_offset: usize,
    pub check_len: usize,
}

#[derive(Debug, Clone, Default, PartialEq)]
pub struct XzStream {
    pub offset: usize,
    pub check_id: u8,
    pub blocks: Vec<XzBlock>,
    pub index_offset: usize,
    pub index_len: usize,
    pub footer_offset: usize,
    pub end: usize,
}

#[derive(Debug, Clone, Default)]
pub struct XzWalk {
    pub streams: Vec<XzStream>,
    /// stream padding lengths after each stream
    pub paddings: Vec<usize>,
    pub error: Option<String>,
}

pub fn vli_decode(data: &[u8], p: &mut usize) -> Option<u64> {
    let mut v = 0u64;
    for i in 0..9 {
        let b = *data.get(*p)?;
        *p += 1;
        v |= ((b & 0x7F) as u64) << (7 * i);
        if b & 0x80 == 0 {
            if b == 0 && i > 0 {
                return None;
            }
            return Some(v);
        }
    }
    None
}

pub fn vli_encode(mut v: u64, out: &mut Vec<u8>) {
    while v >= 0x80 {
        out.push(v as u8 | 0x80);
        v >>= 7;
    }
    out.push(v as u8);
}

pub fn check_len(id: u8) -> usize {
    match id {
        0 => 0,
        1..=3 => 4,
        4..=6 => 8,
        7..=9 => 16,
        10..=12 => 32,
        _ => 64,
    }
}

/// Walks an .xz file from the back of each stream (footer -> index -> blocks), like a
/// conforming seeking decoder would.
pub fn walk_xz(data: &[u8]) -> XzWalk {
    let mut w = XzWalk::default();
    let mut end = data.len();
    let mut streams = Vec::new();
    let mut paddings = Vec::new();
    loop {
        // stream padding
        let mut pad = 0;
        while end >= 4 && data[end - 4..end] == [0, 0, 0, 0] {
            end -= 4;
            pad += 4;
        }
        if end == 0 {
            if !streams.is_empty() || pad > 0 {
                // leading padding is not allowed by the format, but nothing to walk
            }
            break;
        }
        match walk_xz_stream_back(data, end) {
            Ok(s) => {
                paddings.push(pad);
                end = s.offset;
                streams.push(s);
                if end == 0 {
                    break;
                }
            }
            Err(e) => {
                w.error = Some(e);
                break;
            }
        }
    }
    streams.reverse();
    paddings.reverse();
    w.streams = streams;
    w.paddings = paddings;
    w
}

fn walk_xz_stream_back(data: &[u8], end: usize) -> Result<XzStream, String> {
    if end < 32 {
        return Err("too short".into());
    }
    let f = &data[end - 12..end];
    if &f[10..12] != b"YZ" {
        return Err(format!("bad footer magic at {}", end - 2));
    }
    let fcrc = u32::from_le_bytes(f[0..4].try_into().unwrap());
    if crc32(&f[4..10]) != fcrc {
        return Err("footer crc".into());
    }
    let backward = (u32::from_le_bytes(f[4..8].try_into().unwrap()) as usize + 1) * 4;
    if f[8] != 0 {
        return Err("footer flags".into());
    }
    let check_id = f[9];
    let footer_offset = end - 12;
    if backward > footer_offset {
        return Err("backward size".into());
    }
    let index_offset = footer_offset - backward;
    let idx = &data[index_offset..footer_offset];
    if idx[0] != 0 {
        return Err("index indicator".into());
    }
    if crc32(&idx[..idx.len() - 4]) != u32::from_le_bytes(idx[idx.len() - 4..].try_into().unwrap()) {
        return Err("index crc".into());
    }
    let mut p = 1usize;
    let n = vli_decode(idx, &mut p).ok_or("index count")?;
    let mut recs = Vec::new();
    for _ in 0..n {
        let unp = vli_decode(idx, &mut p).ok_or("index record")?;
        let unc = vli_decode(idx, &mut p).ok_or("index record")?;
        recs.push((unp, unc));
    }
    while p % 4 != 0 {
        if idx.get(p) != Some(&0) {
            return Err("index padding".into());
        }
        p += 1;
    }
    if p + 4 != idx.len() {
        return Err("index length".into());
    }
    let blocks_len: usize = recs.iter().map(|r| ((r.0 as usize) + 3) & !3).sum();
    if blocks_len + 12 > index_offset {
        return Err("blocks exceed stream".into());
    }
    let start = index_offset - blocks_len - 12;
    let h = &data[start..start + 12];
    if &h[0..6] != b"\xFD7zXZ\0" {
        return Err(format!("bad header magic at {start}"));
    }
    if h[6] != 0 || h[7] != check_id {
        return Err("header flags".into());
    }
    if crc32(&h[6..8]) != u32::from_le_bytes(h[8..12].try_into().unwrap()) {
        return Err("header crc".into());
    }
    let cl = check_len(check_id);
    let mut blocks = Vec::new();
    let mut off = start + 12;
    for (unp, unc) in recs {
        let hs = (data[off] as usize + 1) * 4;
        if hs < 8 || off + hs > index_offset {
            return Err("block header size".into());
        }
        let hd = &data[off..off + hs];
        if crc32(&hd[..hs - 4]) != u32::from_le_bytes(hd[hs - 4..].try_into().unwrap()) {
            return Err("block header crc".into());
        }
        let flags = hd[1];
        let mut p = 2usize;
        let mut csf = None;
        let mut usf = None;
        if flags & 0x40 != 0 {
            csf = Some(vli_decode(hd, &mut p).ok_or("block csize")?);
        }
        if flags & 0x80 != 0 {
            usf = Some(vli_decode(hd, &mut p).ok_or("block usize")?);
        }
        let nf = (flags & 3) as usize + 1;
        let mut filters = Vec::new();
        for _ in 0..nf {
            let id = vli_decode(hd, &mut p).ok_or("filter id")?;
            let pl = vli_decode(hd, &mut p).ok_or("filter props len")? as usize;
            if p + pl > hs - 4 {
                return Err("filter props".into());
            }
            filters.push(XzFilter {
                id,
                props: hd[p..p + pl].to_vec(),
            });
            p += pl;
        }
        let unp = unp as usize;
        if unp < hs + cl {
            return Err("unpadded size too small".into());
        }
        let comp = unp - hs - cl;
        let padding = (4 - (unp % 4)) % 4;
        blocks.push(XzBlock {
            offset: off,
            header_size: hs,
            flags,
            compressed_size_field: csf,
            uncompressed_size_field: usf,
            filters,
            data_offset: off + hs,
            unpadded_size: unp as u64,
            uncompressed_size: unc,
            padding,
            check_offset: off + hs + comp + padding,
            check_len: cl,
        });
        off += unp + padding;
    }
    if off != index_offset {
        return Err("blocks do not end at index".into());
    }
    Ok(XzStream {
        offset: start,
        check_id,
        blocks,
        index_offset,
        index_len: backward,
        footer_offset,
        end,
    })
}

pub fn compute_check(id: u8, data: &[u8]) -> Vec<u8> {
    match id {
        0 => vec![],
        1 => crc32(data).to_le_bytes().to_vec(),
        4 => crc64(data).to_le_bytes().to_vec(),
        10 => Sha256::digest(data).to_vec(),
        _ => vec![0; check_len(id)],
    }
}
