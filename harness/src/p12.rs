//! C12 — concatenated XZ streams / LZIP members.

use std::io::Cursor;

use lzma_rust2::LZIPReaderMT;
use proptest::prelude::*;
use serde::{Deserialize, Serialize};

use crate::codec::*;
use crate::cont::*;
use crate::engine::*;
use crate::gen::*;
use crate::refimpl::*;

#[derive(Clone, Debug, Serialize, Deserialize)]
pub struct XzPart {
    pub data: Data,
    pub cfg: XzCfg,
    /// built by liblzma instead of the crate's writer
    pub by_ref: bool,
    /// stream padding after this stream
    pub pad: u32,
}

#[derive(Clone, Debug, Serialize, Deserialize)]
pub enum Case {
    Xz {
        parts: Vec<XzPart>,
        multi: bool,
        sizes: Vec<u32>,
    },
    Lzip {
        members: Vec<(Data, LzipCfg)>,
        trailing: Option<Vec<u8>>,
        mt_workers: Option<u32>,
        sizes: Vec<u32>,
    },
}

pub struct C12;

fn pad_strategy() -> BoxedStrategy<u32> {
    prop_oneof![
        5 => Just(0u32),
        4 => (1u32..=16).prop_map(|k| k * 4),
        3 => prop_oneof![Just(1u32), Just(2u32), Just(3u32), Just(5u32), Just(6u32), Just(7u32), Just(9u32)],
    ]
    .boxed()
}

fn part_strategy() -> BoxedStrategy<XzPart> {
    (
        prop_oneof![2 => Just(Data::default()), 8 => data_strategy(3, 4000)],
        xz_cfg_strategy(1 << 16),
        any::<bool>(),
        pad_strategy(),
    )
        .prop_map(|(data, mut cfg, by_ref, pad)| {
            // single BCJ at most (recorded finding), block size unset (single write anyway)
            let mut seen = false;
            cfg.filters.retain(|f| {
                if f.is_bcj() {
                    if seen {
                        return false;
                    }
                    seen = true;
                }
                true
            });
            XzPart { data, cfg, by_ref, pad }
        })
        .boxed()
}

impl Property for C12 {
    type Case = Case;
    const ID: &'static str = "C12";

    fn families(_tier: Tier) -> u32 {
        3
    }

    fn strategy(_tier: Tier, family: u32) -> BoxedStrategy<Case> {
        match family {
            0 | 1 => (
                proptest::collection::vec(part_strategy(), 1..=6),
                prop_oneof![4 => Just(true), 1 => Just(false)],
                read_sizes_strategy(),
            )
                .prop_map(|(parts, multi, sizes)| Case::Xz { parts, multi, sizes })
                .boxed(),
            _ => (
                proptest::collection::vec(
                    (
                        prop_oneof![2 => Just(Data::default()), 8 => data_strategy(3, 4000)],
                        lzip_cfg_strategy(1 << 16),
                    ),
                    1..=8,
                ),
                prop_oneof![
                    3 => Just(None),
                    1 => proptest::collection::vec(any::<u8>(), 1..40).prop_map(Some),
                ],
                prop_oneof![2 => Just(None), 1 => (1u32..5).prop_map(Some)],
                read_sizes_strategy(),
            )
                .prop_map(|(members, trailing, mt_workers, sizes)| {
                    // trailing data must not look like a member header (that would be a corrupt
                    // member, C04's business)
                    let trailing = trailing.map(|mut t| {
                        if t.starts_with(b"LZIP") || t[0] == b'L' {
                            t[0] = b'x';
                        }
                        t
                    });
                    let mt_workers = if trailing.is_some() { None } else { mt_workers };
                    Case::Lzip {
                        members,
                        trailing,
                        mt_workers,
                        sizes,
                    }
                })
                .boxed(),
        }
    }

    fn budget(tier: Tier) -> u64 {
        tier.pick(20_000, 300_000)
    }

    fn rule() -> &'static str {
        "XZ: 1-6 complete streams (written by the crate or by liblzma, incl. empty ones, different checks/options) joined by stream padding of 0,4,..,64 (valid) or 1,2,3,5,6,7,9 (invalid) bytes, also after the last stream; liblzma with LZMA_CONCATENATED is the reference model: it accepts => the crate must return the concatenated contents, it rejects => the crate must return an error; multi-stream off => exactly the first stream's content. LZIP: 1-8 members incl. empty ones, optional trailing non-member bytes, ST reader and (without trailing bytes) MT reader on real threads; model = concatenation of the member contents. Non-trivial = >= 2 streams/members. Distinct = hash of the case recipe."
    }

    fn floors(_tier: Tier) -> Vec<(&'static str, f64)> {
        vec![
            ("multi_stream", 40.0),
            ("valid_nonzero_padding", 15.0),
            ("invalid_padding", 10.0),
            ("empty_in_middle", 8.0),
            ("multi_off", 5.0),
            ("lzip", 20.0),
        ]
    }

    fn run(case: &Case, obs: &mut Obs) -> Outcome {
        match case {
            Case::Xz { parts, multi, sizes } => {
                let mut file = Vec::new();
                let mut contents: Vec<Vec<u8>> = Vec::new();
                let mut first_end = 0usize;
                for (i, p) in parts.iter().enumerate() {
                    let d = p.data.expand();
                    let s = if p.by_ref {
                        let pre: Vec<RefFilter> = p.cfg.filters.iter().map(|f| f.to_ref()).collect();
                        let o = &p.cfg.opts;
                        let lz = RefLzma {
                            dict_size: o.dict_size,
                            lc: o.lc,
                            lp: o.lp,
                            pb: o.pb,
                            mode: 1,
                            nice_len: 32,
                            mf: 4,
                            depth: 0,
                        };
                        let chain = Chain::new(&pre, false, &lz, None);
                        xz_encode(&d, &chain, p.cfg.check, &[]).map_err(|e| Failure::new("harness:ref-encode", e))?
                    } else {
                        encode_xz(&d, &p.cfg, &Plan::All)?
                    };
                    file.extend_from_slice(&s);
                    if i == 0 {
                        first_end = file.len();
                    }
                    file.resize(file.len() + p.pad as usize, 0);
                    contents.push(d);
                }
                let all: Vec<u8> = contents.concat();
                let cap = all.len() + (1 << 20);
                obs.nontrivial = parts.len() >= 2;
                obs.class_if(parts.len() >= 2, "multi_stream");
                obs.class_if(parts.iter().any(|p| p.pad > 0 && p.pad % 4 == 0), "valid_nonzero_padding");
                obs.class_if(parts.iter().any(|p| p.pad % 4 != 0), "invalid_padding");
                obs.class_if(
                    parts.len() >= 3 && parts[1..parts.len() - 1].iter().any(|p| p.data.total_len() == 0),
                    "empty_in_middle",
                );
                obs.class_if(!*multi, "multi_off");
                if *multi {
                    let reference = xz_decode(&file, true, cap);
                    let ours = decode_xz(&file, true, sizes, cap)?;
                    match (reference, ours) {
                        (Ok(r), Ok(o)) => {
                            if r.out != all {
                                return Err(Failure::new("harness:ref-model", "liblzma output differs from the concatenation"));
                            }
                            if o != all {
                                return Err(Failure::new("xz-concat-mismatch", first_diff(&o, &all)));
                            }
                            Ok(())
                        }
                        (Ok(_), Err(e)) => Err(Failure::new(
                            "xz-concat-rejected",
                            format!("well-formed concatenation ({} streams, pads {:?}) rejected: {e}", parts.len(), parts.iter().map(|p| p.pad).collect::<Vec<_>>()),
                        )),
                        (Err(re), Ok(o)) => Err(Failure::new(
                            "xz-malformed-padding-accepted",
                            format!("reference: {re}; crate returned {} bytes (pads {:?})", o.len(), parts.iter().map(|p| p.pad).collect::<Vec<_>>()),
                        )),
                        (Err(_), Err(_)) => Ok(()),
                    }
                } else {
                    let (ours, pos) = decode_xz_consumed(&file, false, sizes, cap)?;
                    match ours {
                        Ok(o) => {
                            if o != contents[0] {
                                return Err(Failure::new("xz-single-mismatch", first_diff(&o, &contents[0])));
                            }
                            if pos != first_end {
                                return Err(Failure::new(
                                    "xz-single-consumed",
                                    format!("multi-stream off: source left at {pos}, first stream ends at {first_end}"),
                                ));
                            }
                            Ok(())
                        }
                        Err(e) => Err(Failure::new("xz-single-rejected", e.to_string())),
                    }
                }
            }
            Case::Lzip {
                members,
                trailing,
                mt_workers,
                sizes,
            } => {
                obs.class("lzip");
                let mut file = Vec::new();
                let mut all = Vec::new();
                for (d, cfg) in members {
                    let d = d.expand();
                    let mut cfg = cfg.clone();
                    cfg.member = None;
                    file.extend_from_slice(&encode_lzip(&d, &cfg, &Plan::All)?);
                    all.extend_from_slice(&d);
                }
                if let Some(t) = trailing {
                    file.extend_from_slice(t);
                    obs.class("lzip_trailing");
                }
                obs.nontrivial = members.len() >= 2;
                obs.class_if(members.len() >= 2, "multi_stream");
                obs.class_if(
                    members.len() >= 3 && members[1..members.len() - 1].iter().any(|m| m.0.total_len() == 0),
                    "empty_in_middle",
                );
                let cap = all.len() + (1 << 20);
                match decode_lzip(&file, sizes, cap)? {
                    Ok(o) if o == all => {}
                    Ok(o) => return Err(Failure::new("lzip-concat-mismatch", first_diff(&o, &all))),
                    Err(e) => return Err(Failure::new("lzip-concat-rejected", format!("{} members: {e}", members.len()))),
                }
                if let Some(w) = mt_workers {
                    obs.class("lzip_mt");
                    let sizes = sizes.clone();
                    let f2 = file.clone();
                    let r = no_panic("lzip-mt-decode", move || {
                        let mut r = LZIPReaderMT::new(Cursor::new(f2), *w)?;
                        read_all(&mut r, &sizes, cap)
                    })?;
                    match r {
                        Ok(o) if o == all => {}
                        Ok(o) => return Err(Failure::new("lzip-mt-concat-mismatch", first_diff(&o, &all))),
                        Err(e) => return Err(Failure::new("lzip-mt-concat-rejected", format!("{} members: {e}", members.len()))),
                    }
                }
                Ok(())
            }
        }
    }
}
