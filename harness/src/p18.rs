//! C18 — size options and declared sizes are honoured.

use std::io::{Cursor, Write};
use std::num::NonZeroU64;

use lzma_rust2::{LZIPReaderMT, LZIPWriterMT, LZMA2Options, LZMA2ReaderMT, LZMA2WriterMT, LZMAWriter};
use proptest::prelude::*;
use serde::{Deserialize, Serialize};

use crate::codec::*;
use crate::cont::*;
use crate::engine::*;
use crate::gen::*;
use crate::walk::*;

#[derive(Clone, Debug, Serialize, Deserialize, PartialEq)]
pub enum Exp {
    None,
    Equal,
    /// expected = len - k (k >= 1)
    Smaller(u32),
    /// expected = len + k
    Larger(u32),
}

#[derive(Clone, Debug, Serialize, Deserialize)]
pub enum Kind {
    Xz(XzCfg),
    Lzip(LzipCfg),
    Lzma2Mt { opts: Opts, unit: u64, workers: u32 },
    LzipMt { opts: Opts, unit: u64, workers: u32 },
    LzmaExpected { opts: Opts, exp: Exp, end_marker: bool },
}

#[derive(Clone, Debug, Serialize, Deserialize)]
pub struct Case {
    pub data: Data,
    pub kind: Kind,
    pub plan: Plan,
    pub sizes: Vec<u32>,
}

pub struct C18;

fn unit_data() -> BoxedStrategy<Data> {
    proptest::collection::vec(
        prop_oneof![
            (3000u32..20_000, any::<u64>()).prop_map(|(len, seed)| Seg::Mixed { len, seed }),
            (3000u32..20_000, any::<u64>()).prop_map(|(len, seed)| Seg::Text { len, seed }),
            (1000u32..20_000, any::<u64>()).prop_map(|(len, seed)| Seg::Rand { len, seed }),
            seg_strategy(30_000),
        ],
        0..6,
    )
    .prop_map(|segs| Data { segs })
    .boxed()
}

fn small_dict_opts() -> BoxedStrategy<Opts> {
    (opts_strategy(16_384, true), prop_oneof![3 => Just(4096u32), 2 => 4096u32..=16_384]).prop_map(|(mut o, d)| {
        o.dict_size = d;
        o
    })
    .boxed()
}

fn unit_strategy(dict: u32) -> BoxedStrategy<u64> {
    let d = dict as u64;
    prop_oneof![2 => Just(1u64), 2 => 1u64..d, 3 => Just(d), 3 => d..=d * 3, 1 => Just(d * 2)].boxed()
}

/// plans that include one huge write and many tiny ones
fn size_plan() -> BoxedStrategy<Plan> {
    prop_oneof![
        4 => Just(Plan::All),
        2 => piece_size_strategy().prop_map(Plan::Fixed),
        2 => (1u32..9000).prop_map(Plan::Fixed),
        2 => proptest::collection::vec(prop_oneof![1u32..10, 1u32..9000, 20_000u32..90_000], 1..5).prop_map(Plan::Sizes),
    ]
    .boxed()
}

impl Property for C18 {
    type Case = Case;
    const ID: &'static str = "C18";

    fn families(_tier: Tier) -> u32 {
        9
    }

    fn strategy(_tier: Tier, family: u32) -> BoxedStrategy<Case> {
        let kind = match family {
            0 | 1 => small_dict_opts()
                .prop_flat_map(|opts| (Just(opts.clone()), unit_strategy(opts.dict_size), 0u8..4, prop_oneof![3 => Just(vec![]), 1 => Just(vec![FilterSpec::Delta(3)])]))
                .prop_map(|(opts, block, check, filters)| {
                    Kind::Xz(XzCfg {
                        check,
                        block: Some(block),
                        filters,
                        opts,
                    })
                })
                .boxed(),
            2 | 3 => small_dict_opts()
                .prop_flat_map(|opts| (Just(opts.clone()), unit_strategy(opts.dict_size)))
                .prop_map(|(opts, member)| Kind::Lzip(LzipCfg { opts, member: Some(member) }))
                .boxed(),
            4 => small_dict_opts()
                .prop_flat_map(|opts| (Just(opts.clone()), unit_strategy(opts.dict_size), 1u32..5))
                .prop_map(|(opts, unit, workers)| Kind::Lzma2Mt { opts, unit, workers })
                .boxed(),
            5 => small_dict_opts()
                .prop_flat_map(|opts| (Just(opts.clone()), unit_strategy(opts.dict_size), 1u32..5))
                .prop_map(|(opts, unit, workers)| Kind::LzipMt { opts, unit, workers })
                .boxed(),
            _ => (
                opts_strategy(1 << 16, false),
                prop_oneof![
                    1 => Just(Exp::None),
                    3 => Just(Exp::Equal),
                    3 => (1u32..5000).prop_map(Exp::Smaller),
                    3 => (1u32..5000).prop_map(Exp::Larger),
                ],
                any::<bool>(),
            )
                .prop_map(|(opts, exp, end_marker)| Kind::LzmaExpected { opts, exp, end_marker })
                .boxed(),
        };
        if family == 8 {
            // MT LZMA2 units of 128-256 KiB that open with more than one stored chunk's worth of incompressible bytes
            // followed by compressible data: stored and LZMA chunks inside one unit
            return (
                proptest::collection::vec((66_000u32..90_000, any::<u64>(), 10_000u32..40_000), 2..5),
                opts_strategy(1 << 16, true),
                131_072u64..262_144,
                1u32..5,
                size_plan(),
                read_sizes_strategy(),
            )
                .prop_map(|(stretches, mut opts, unit, workers, plan, sizes)| {
                    opts.dict_size = 65_536;
                    let mut segs = Vec::new();
                    for (noise, seed, text) in stretches {
                        segs.push(Seg::Rand { len: noise, seed });
                        segs.push(Seg::Text { len: text, seed: seed ^ 9 });
                    }
                    Case {
                        data: Data { segs },
                        kind: Kind::Lzma2Mt { opts, unit, workers },
                        plan,
                        sizes,
                    }
                })
                .boxed();
        }
        (unit_data(), kind, size_plan(), read_sizes_strategy())
            .prop_map(|(data, kind, plan, sizes)| Case { data, kind, plan, sizes })
            .boxed()
    }

    fn budget(tier: Tier) -> u64 {
        tier.pick(8000, 250_000)
    }

    fn rule() -> &'static str {
        "case = (data of 0-5 segments, writer with a block/member/chunk size below, at and above the 4-16 KiB dictionary, write plan incl. one huge write and many tiny ones; plus LZMA2WriterMT units of 128-256 KiB that open with more than 64 KiB of incompressible bytes followed by compressible data, so that stored and LZMA chunks share a unit). The harness's own walkers read the produced file: every XZ block and LZIP member holds at most max(size, dict) uncompressed bytes; the MT writers (real threads) cut units of exactly max(size, dict) except the last, and chunk_count() / member_count() of the MT readers equal the number of independent units (non-empty data); every file must also decode to the input. LZMAWriter with an expected size: a write crossing it fails, finish() short of it fails, otherwise the header carries the number of bytes written and the stream decodes. Non-trivial = more than two units or an expected size that differs from the data length. Distinct = hash of the case recipe."
    }

    fn floors(_tier: Tier) -> Vec<(&'static str, f64)> {
        vec![("multi_unit", 30.0), ("write_spans_units", 10.0), ("xz", 15.0), ("lzip", 15.0), ("mt", 15.0), ("expected", 15.0)]
    }

    fn run(case: &Case, obs: &mut Obs) -> Outcome {
        let data = case.data.expand();
        let cap = data.len() + (1 << 20);
        let largest_write = case.plan.pieces(&data).iter().map(|p| p.len()).max().unwrap_or(0);
        match &case.kind {
            Kind::Xz(cfg) => {
                obs.class("xz");
                let limit = cfg.block.unwrap().max(cfg.opts.dict_size as u64);
                obs.class_if(largest_write as u64 > limit, "write_spans_units");
                let s = encode_xz(&data, cfg, &case.plan)?;
                let w = walk_xz(&s);
                if w.error.is_some() || w.streams.len() != 1 {
                    return Err(Failure::new("xz-structure", format!("walker: {:?}", w.error)));
                }
                let blocks = &w.streams[0].blocks;
                obs.class_if(blocks.len() > 2, "multi_unit");
                obs.nontrivial = blocks.len() > 2 || largest_write as u64 > limit;
                for (i, b) in blocks.iter().enumerate() {
                    if b.uncompressed_size > limit {
                        return Err(Failure::new(
                            "xz-block-exceeds-limit",
                            format!("block {i} of {} holds {} bytes, limit max(block_size {}, dict {}) = {limit}; largest write {largest_write}", blocks.len(), b.uncompressed_size, cfg.block.unwrap(), cfg.opts.dict_size),
                        ));
                    }
                }
                match decode_xz(&s, false, &case.sizes, cap)? {
                    Ok(o) if o == data => Ok(()),
                    Ok(o) => Err(Failure::new("xz-roundtrip-mismatch", first_diff(&o, &data))),
                    Err(e) => Err(Failure::new("xz-roundtrip-error", e.to_string())),
                }
            }
            Kind::Lzip(cfg) => {
                obs.class("lzip");
                let limit = cfg.member.unwrap().max(cfg.opts.dict_size as u64);
                obs.class_if(largest_write as u64 > limit, "write_spans_units");
                let s = encode_lzip(&data, cfg, &case.plan)?;
                let w = walk_lzip(&s);
                if w.error.is_some() {
                    return Err(Failure::new("lzip-structure", format!("{:?}", w.error)));
                }
                obs.class_if(w.members.len() > 2, "multi_unit");
                obs.nontrivial = w.members.len() > 2 || largest_write as u64 > limit;
                for (i, m) in w.members.iter().enumerate() {
                    if m.data_size > limit {
                        return Err(Failure::new(
                            "lzip-member-exceeds-limit",
                            format!("member {i} of {} holds {} bytes, limit {limit}", w.members.len(), m.data_size),
                        ));
                    }
                }
                match decode_lzip(&s, &case.sizes, cap)? {
                    Ok(o) if o == data => Ok(()),
                    Ok(o) => Err(Failure::new("lzip-roundtrip-mismatch", first_diff(&o, &data))),
                    Err(e) => Err(Failure::new("lzip-roundtrip-error", e.to_string())),
                }
            }
            Kind::Lzma2Mt { opts, unit, workers } => {
                obs.class("mt");
                let eff = (*unit).max(opts.dict_size as u64);
                obs.class_if(largest_write as u64 > eff, "write_spans_units");
                let plan = case.plan.clone();
                let d2 = data.clone();
                let (o2, u2, w2) = (opts.clone(), *unit, *workers);
                let s = no_panic("lzma2-mt-write", move || -> std::io::Result<Vec<u8>> {
                    let mut l2 = LZMA2Options {
                        lzma_options: o2.to_lzma(),
                        chunk_size: None,
                    };
                    l2.set_chunk_size(NonZeroU64::new(u2));
                    let mut w = LZMA2WriterMT::new(Vec::new(), l2, w2)?;
                    write_plan(&mut w, &d2, &plan)?;
                    w.finish()
                })?
                .map_err(|e| Failure::new("mt-write-failed", e.to_string()))?;
                let w = walk_lzma2(&s);
                if w.error.is_some() || w.end != Some(s.len()) {
                    return Err(Failure::new("lzma2-structure", format!("{:?}", w.error)));
                }
                // units = runs of chunks starting at a dictionary reset
                let mut units: Vec<usize> = Vec::new();
                for c in &w.chunks {
                    if c.control == 0x01 || c.control >= 0xE0 {
                        units.push(0);
                    }
                    match units.last_mut() {
                        Some(u) => *u += c.unpacked,
                        None => return Err(Failure::new("lzma2-first-chunk-no-reset", format!("control {:#x}", c.control))),
                    }
                }
                obs.class_if(units.len() > 2, "multi_unit");
                obs.nontrivial = units.len() > 2;
                for (i, u) in units.iter().enumerate() {
                    let last = i + 1 == units.len();
                    if (!last && *u as u64 != eff) || (last && *u as u64 > eff) {
                        return Err(Failure::new(
                            "mt-unit-size",
                            format!("LZMA2 unit {i} of {} holds {u} bytes, configured {unit} (dict {}) => expected {}{eff}", units.len(), opts.dict_size, if last { "<= " } else { "" }),
                        ));
                    }
                }
                let sizes = case.sizes.clone();
                let (dict, w2) = (opts.dict_size, *workers);
                let s2 = s.clone();
                let r = no_panic("lzma2-mt-read", move || -> std::io::Result<(Vec<u8>, u64)> {
                    let mut r = LZMA2ReaderMT::new(Cursor::new(s2), dict, None, w2);
                    let out = read_all(&mut r, &sizes, cap)?;
                    Ok((out, r.chunk_count()))
                })?;
                match r {
                    Ok((o, n)) => {
                        if o != data {
                            return Err(Failure::new("mt-roundtrip-mismatch", first_diff(&o, &data)));
                        }
                        if !data.is_empty() && n != units.len() as u64 {
                            return Err(Failure::new("chunk-count", format!("chunk_count() = {n}, the stream has {} independent units", units.len())));
                        }
                        Ok(())
                    }
                    Err(e) => Err(Failure::new("mt-roundtrip-error", e.to_string())),
                }
            }
            Kind::LzipMt { opts, unit, workers } => {
                obs.class("mt");
                let eff = (*unit).max(opts.dict_size as u64);
                obs.class_if(largest_write as u64 > eff, "write_spans_units");
                let plan = case.plan.clone();
                let d2 = data.clone();
                let cfg = LzipCfg {
                    opts: opts.clone(),
                    member: Some(*unit),
                };
                let w2 = *workers;
                let s = no_panic("lzip-mt-write", move || -> std::io::Result<Vec<u8>> {
                    let mut w = LZIPWriterMT::new(Vec::new(), lzip_options(&cfg), w2)?;
                    write_plan(&mut w, &d2, &plan)?;
                    w.finish()
                })?
                .map_err(|e| Failure::new("mt-write-failed", e.to_string()))?;
                let w = walk_lzip(&s);
                if w.error.is_some() {
                    return Err(Failure::new("lzip-structure", format!("{:?}", w.error)));
                }
                obs.class_if(w.members.len() > 2, "multi_unit");
                obs.nontrivial = w.members.len() > 2;
                for (i, m) in w.members.iter().enumerate() {
                    let last = i + 1 == w.members.len();
                    if (!last && m.data_size != eff) || (last && m.data_size > eff) {
                        return Err(Failure::new(
                            "mt-unit-size",
                            format!("LZIP member {i} of {} holds {} bytes, expected {}{eff}", w.members.len(), m.data_size, if last { "<= " } else { "" }),
                        ));
                    }
                }
                let sizes = case.sizes.clone();
                let s2 = s.clone();
                let r = no_panic("lzip-mt-read", move || -> std::io::Result<(Vec<u8>, usize)> {
                    let mut r = LZIPReaderMT::new(Cursor::new(s2), w2)?;
                    let n = r.member_count();
                    let out = read_all(&mut r, &sizes, cap)?;
                    Ok((out, n))
                })?;
                match r {
                    Ok((o, n)) => {
                        if o != data {
                            return Err(Failure::new("mt-roundtrip-mismatch", first_diff(&o, &data)));
                        }
                        if !data.is_empty() && n != w.members.len() {
                            return Err(Failure::new("member-count", format!("member_count() = {n}, the file has {} members", w.members.len())));
                        }
                        Ok(())
                    }
                    Err(e) => Err(Failure::new("mt-roundtrip-error", e.to_string())),
                }
            }
            Kind::LzmaExpected { opts, exp, end_marker } => {
                obs.class("expected");
                let n = data.len() as u64;
                let expected: Option<u64> = match exp {
                    Exp::None => None,
                    Exp::Equal => Some(n),
                    Exp::Smaller(k) => Some(n.saturating_sub(*k as u64)),
                    Exp::Larger(k) => Some(n + *k as u64),
                };
                obs.nontrivial = expected.is_some() && expected != Some(n);
                let plan = case.plan.clone();
                let d2 = data.clone();
                let o = opts.to_lzma();
                let em = *end_marker || expected.is_none();
                // (result of finish or the first failing op, bytes accepted before the failure)
                let r = no_panic("lzma-expected", move || -> (Result<Vec<u8>, String>, u64, bool) {
                    let mut w = match LZMAWriter::new(Vec::new(), &o, true, em, expected) {
                        Ok(w) => w,
                        Err(e) => return (Err(format!("new: {e}")), 0, false),
                    };
                    let mut acc = 0u64;
                    for p in plan.pieces(&d2) {
                        match w.write_all(p) {
                            Ok(()) => acc += p.len() as u64,
                            Err(e) => return (Err(format!("write: {e}")), acc, true),
                        }
                    }
                    match w.finish() {
                        Ok(v) => (Ok(v), acc, false),
                        Err(e) => (Err(format!("finish: {e}")), acc, false),
                    }
                })?;
                let (res, accepted, failed_in_write) = r;
                match expected {
                    Some(e) if e < n => {
                        // some write must fail, and never after accepting more than expected
                        if res.is_ok() || !failed_in_write {
                            return Err(Failure::new("expected-size-overrun-accepted", format!("expected {e}, {n} bytes written: {:?}", res.as_ref().map(|v| v.len()))));
                        }
                        if accepted > e {
                            return Err(Failure::new("expected-size-overrun-accepted", format!("expected {e}, writer accepted {accepted} bytes before failing")));
                        }
                        Ok(())
                    }
                    Some(e) if e > n => {
                        if res.is_ok() || failed_in_write {
                            return Err(Failure::new("expected-size-shortfall", format!("expected {e}, only {n} written: finish must fail, got {:?} (failed in write: {failed_in_write})", res.as_ref().map(|v| v.len()))));
                        }
                        Ok(())
                    }
                    _ => {
                        let s = res.map_err(|e| Failure::new("expected-size-spurious-error", e))?;
                        if s.len() < 13 {
                            return Err(Failure::new("lzma-header", "short"));
                        }
                        let hs = u64::from_le_bytes(s[5..13].try_into().unwrap());
                        let want = expected.unwrap_or(u64::MAX);
                        if hs != want {
                            return Err(Failure::new("lzma-header-size", format!("header says {hs}, {want} expected")));
                        }
                        let fr = if expected.is_some() { Framing::HeaderSized } else { Framing::HeaderEos };
                        match decode_lzma(&s, data.len(), opts, None, &fr, &case.sizes)? {
                            Ok(o) if o == data => Ok(()),
                            Ok(o) => Err(Failure::new("lzma-roundtrip-mismatch", first_diff(&o, &data))),
                            Err(e) => Err(Failure::new("lzma-roundtrip-error", e.to_string())),
                        }
                    }
                }
            }
        }
    }
}

#[allow(unused)]
fn _w<W: Write>(_: W) {}
