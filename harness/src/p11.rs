//! C11 — BCJ / Delta / BCJ2 filters: inverse and agreement with the reference.

use std::io::{self, Read, Write};

use lzma_rust2::filter::bcj2::BCJ2Reader;
use lzma_rust2::filter::delta::{DeltaReader, DeltaWriter};
use proptest::prelude::*;
use serde::{Deserialize, Serialize};

use crate::codec::*;
use crate::engine::*;
use crate::gen::*;
use crate::p05::bcj_writer;
use crate::refimpl::*;

#[derive(Clone, Debug, Serialize, Deserialize)]
pub enum Kind {
    Bcj { arch: u8, start: u32 },
    Delta { dist: u32 },
    /// decisions: bit k of the seeded stream decides whether candidate k is converted
    Bcj2 { decide_seed: u64, convert_pct: u8, chunk: Vec<u32> },
}

#[derive(Clone, Debug, Serialize, Deserialize)]
pub struct Case {
    pub data: Data,
    pub kind: Kind,
    pub sizes: Vec<u32>,
    /// Delta only: sizes of the write calls (cycled); empty = one write_all
    #[serde(default)]
    pub wplan: Vec<u32>,
}

pub struct C11;

// ---------------------------------------------------------------------------------------------
// BCJ2 reference encoder (DESIGN.md appendix B)

pub struct Bcj2Streams {
    pub main: Vec<u8>,
    pub call: Vec<u8>,
    pub jump: Vec<u8>,
    pub rc: Vec<u8>,
    pub converted_calls: usize,
    pub converted_jumps: usize,
    pub candidates: usize,
}

struct RcEnc {
    low: u64,
    range: u32,
    cache: u8,
    cache_size: u64,
    out: Vec<u8>,
}

impl RcEnc {
    fn new() -> Self {
        RcEnc {
            low: 0,
            range: 0xFFFF_FFFF,
            cache: 0,
            cache_size: 1,
            out: Vec::new(),
        }
    }
    fn shift_low(&mut self) {
        if self.low < 0xFF00_0000 || self.low > 0xFFFF_FFFF {
            let carry = (self.low >> 32) as u8;
            let mut temp = self.cache;
            loop {
                self.out.push(temp.wrapping_add(carry));
                temp = 0xFF;
                self.cache_size -= 1;
                if self.cache_size == 0 {
                    break;
                }
            }
            self.cache = (self.low >> 24) as u8;
        }
        self.cache_size += 1;
        self.low = (self.low & 0x00FF_FFFF) << 8;
    }
    fn encode(&mut self, prob: &mut u16, bit: bool) {
        let bound = (self.range >> 11) * (*prob as u32);
        if !bit {
            self.range = bound;
            *prob += (2048 - *prob) >> 5;
        } else {
            self.low += bound as u64;
            self.range -= bound;
            *prob -= *prob >> 5;
        }
        while self.range < (1 << 24) {
            self.range <<= 8;
            self.shift_low();
        }
    }
    fn finish(mut self) -> Vec<u8> {
        for _ in 0..5 {
            self.shift_low();
        }
        self.out
    }
}

pub fn bcj2_encode(data: &[u8], mut decide: impl FnMut(usize) -> bool) -> Bcj2Streams {
    let mut s = Bcj2Streams {
        main: Vec::with_capacity(data.len()),
        call: Vec::new(),
        jump: Vec::new(),
        rc: Vec::new(),
        converted_calls: 0,
        converted_jumps: 0,
        candidates: 0,
    };
    let mut rc = RcEnc::new();
    let mut probs = [1024u16; 258];
    let mut prev: u8 = 0;
    let mut i = 0usize;
    let n = data.len();
    while i < n {
        let b = data[i];
        s.main.push(b);
        let cand = (b & 0xFE) == 0xE8 || (prev == 0x0F && (b & 0xF0) == 0x80);
        if !cand {
            prev = b;
            i += 1;
            continue;
        }
        s.candidates += 1;
        let idx = if b == 0xE8 {
            2 + prev as usize
        } else if b == 0xE9 {
            1
        } else {
            0
        };
        let can = i + 5 <= n;
        let conv = can && decide(s.candidates);
        rc.encode(&mut probs[idx], conv);
        if conv {
            let rel = u32::from_le_bytes([data[i + 1], data[i + 2], data[i + 3], data[i + 4]]);
            let abs = rel.wrapping_add((i + 5) as u32);
            if b == 0xE8 {
                s.call.extend_from_slice(&abs.to_be_bytes());
                s.converted_calls += 1;
            } else {
                s.jump.extend_from_slice(&abs.to_be_bytes());
                s.converted_jumps += 1;
            }
            prev = data[i + 4];
            i += 5;
        } else {
            prev = b;
            i += 1;
        }
    }
    s.rc = rc.finish();
    s
}

/// naive second decoder (used to validate the encoder independently of /repo)
pub fn bcj2_naive_decode(s: &Bcj2Streams, n: usize) -> Option<Vec<u8>> {
    let rcb = &s.rc;
    if rcb.len() < 5 || rcb[0] != 0 {
        return None;
    }
    let mut code = u32::from_be_bytes([rcb[1], rcb[2], rcb[3], rcb[4]]);
    let mut range = 0xFFFF_FFFFu32;
    let mut rp = 5usize;
    let mut probs = [1024u16; 258];
    let mut out = Vec::with_capacity(n);
    let (mut mp, mut cp, mut jp) = (0usize, 0usize, 0usize);
    let mut prev = 0u8;
    while out.len() < n {
        let b = *s.main.get(mp)?;
        mp += 1;
        out.push(b);
        let cand = (b & 0xFE) == 0xE8 || (prev == 0x0F && (b & 0xF0) == 0x80);
        if !cand {
            prev = b;
            continue;
        }
        let idx = if b == 0xE8 {
            2 + prev as usize
        } else if b == 0xE9 {
            1
        } else {
            0
        };
        if range < (1 << 24) {
            range <<= 8;
            code = (code << 8) | *rcb.get(rp)? as u32;
            rp += 1;
        }
        let p = probs[idx];
        let bound = (range >> 11) * p as u32;
        if code < bound {
            range = bound;
            probs[idx] = p + ((2048 - p) >> 5);
            prev = b;
        } else {
            range -= bound;
            code -= bound;
            probs[idx] = p - (p >> 5);
            let (src, pos) = if b == 0xE8 { (&s.call, &mut cp) } else { (&s.jump, &mut jp) };
            let abs = u32::from_be_bytes(src.get(*pos..*pos + 4)?.try_into().ok()?);
            *pos += 4;
            let rel = abs.wrapping_sub((out.len() + 4) as u32);
            out.extend_from_slice(&rel.to_le_bytes());
            prev = (rel >> 24) as u8;
        }
    }
    Some(out)
}

struct Chunked {
    data: Vec<u8>,
    pos: usize,
    cycle: Vec<u32>,
    i: usize,
}

impl Read for Chunked {
    fn read(&mut self, buf: &mut [u8]) -> io::Result<usize> {
        let lim = if self.cycle.is_empty() {
            usize::MAX
        } else {
            self.cycle[self.i % self.cycle.len()].max(1) as usize
        };
        self.i += 1;
        let n = buf.len().min(self.data.len() - self.pos).min(lim);
        buf[..n].copy_from_slice(&self.data[self.pos..self.pos + n]);
        self.pos += n;
        Ok(n)
    }
}

fn code_data(tier: Tier) -> BoxedStrategy<Data> {
    let max = tier.pick(12_000u32, 100_000);
    proptest::collection::vec(
        prop_oneof![
            4 => (0u32..max, 0u8..8, any::<u64>()).prop_map(|(len, arch, seed)| Seg::Opcode { len, arch, seed }),
            3 => (0u32..max, 0u8..8, any::<u32>()).prop_map(|(len, file, off)| Seg::Exe { len, file, off }),
            2 => (0u32..2000, any::<u64>()).prop_map(|(len, seed)| Seg::Rand { len, seed }),
            1 => (0u32..40).prop_map(|len| Seg::Const { len, byte: 0xE8 }),
        ],
        0..4,
    )
    .prop_map(|segs| Data { segs })
    .boxed()
}

fn arch_data(arch: u8, tier: Tier) -> BoxedStrategy<Data> {
    let max = tier.pick(12_000u32, 100_000);
    proptest::collection::vec(
        prop_oneof![
            5 => (0u32..max, any::<u64>()).prop_map(move |(len, seed)| Seg::Opcode { len, arch, seed }),
            // lengths around the reader's 4096-byte buffer
            2 => ((1u32..4).prop_map(|k| k * 4096), 0u32..24, any::<u64>())
                .prop_map(move |(k, d, seed)| Seg::Opcode { len: (k + d).saturating_sub(12), arch, seed }),
            3 => (0u32..max, any::<u32>()).prop_map(move |(len, off)| Seg::Exe { len, file: exe_index(arch), off }),
            1 => (0u32..24, any::<u64>()).prop_map(|(len, seed)| Seg::Rand { len, seed }),
            // x86 only: opcode clusters across every internal buffer boundary (the filter's prev_mask state)
            if arch == 0 { 4 } else { 0 } => (4000u32..max.max(4001) * 2, any::<u64>()).prop_map(|(len, seed)| Seg::X86Soup { len, seed }),
        ],
        0..4,
    )
    .prop_map(|segs| Data { segs })
    .boxed()
}

/// index into gen::EXE_FILES for a refimpl architecture index
fn exe_index(arch: u8) -> u8 {
    // BCJ order: x86 ppc ia64 arm armthumb sparc arm64 riscv; EXE order: x86 arm armthumb arm64 ppc sparc ia64 riscv
    [0u8, 4, 6, 1, 2, 5, 3, 7][arch as usize % 8]
}

impl Property for C11 {
    type Case = Case;
    const ID: &'static str = "C11";

    fn families(_tier: Tier) -> u32 {
        12
    }

    fn strategy(tier: Tier, family: u32) -> BoxedStrategy<Case> {
        match family {
            0..=7 => {
                let arch = family as u8;
                let al = BCJ_ALIGN[arch as usize];
                (
                    arch_data(arch, tier),
                    prop_oneof![
                        4 => Just(0u32),
                        3 => 0u32..1_000_000,
                        2 => (0u32..4096).prop_map(|d| 0x7FFF_FFFFu32.wrapping_sub(d)),
                        2 => (0u32..70_000).prop_map(|d| 0xFFFF_FFFFu32.wrapping_sub(d)),
                        1 => any::<u32>(),
                    ],
                    read_sizes_strategy(),
                )
                    .prop_map(move |(data, s, sizes)| Case {
                        data,
                        kind: Kind::Bcj { arch, start: s / al * al },
                        sizes,
                        wplan: vec![],
                    })
                    .boxed()
            }
            8 | 9 => (
                data_strategy(4, tier.pick(8000, 60_000)),
                prop_oneof![Just(1u32), Just(256u32), 1u32..=256],
                read_sizes_strategy(),
                prop_oneof![
                    1 => Just(vec![]),
                    2 => proptest::collection::vec(prop_oneof![1u32..16, 1u32..600, 1u32..6000, Just(4096u32), Just(4097u32)], 1..6),
                ],
            )
                .prop_map(|(data, dist, sizes, wplan)| Case {
                    data,
                    kind: Kind::Delta { dist },
                    sizes,
                    wplan,
                })
                .boxed(),
            _ => (
                prop_oneof![3 => arch_data(0, tier), 1 => code_data(tier)],
                any::<u64>(),
                prop_oneof![Just(0u8), Just(100u8), 1u8..100],
                prop_oneof![Just(vec![]), proptest::collection::vec(prop_oneof![Just(1u32), 1u32..8, 1u32..5000], 1..4)],
                read_sizes_strategy(),
            )
                .prop_map(|(data, decide_seed, convert_pct, chunk, sizes)| Case {
                    data,
                    kind: Kind::Bcj2 {
                        decide_seed,
                        convert_pct,
                        chunk,
                    },
                    sizes,
                    wplan: vec![],
                })
                .boxed(),
        }
    }

    fn budget(tier: Tier) -> u64 {
        tier.pick(12_000, 70_000)
    }

    fn rule() -> &'static str {
        "BCJ x8 / Delta: generated byte strings (synthetic code dense in the architecture's branch opcodes, slices of the real executables, random, lengths around 4096*k, tiny) x aligned start offsets (0, random, near 2^31 and 2^32) x delta distances; oracles: (1) reader(writer(x)) == x for a single write and any read-size sequence; (2) writer(x) equals liblzma's encoder-side filter output and reader(y) equals liblzma's decoder-side filter output on the same arbitrary bytes. BCJ2: four streams from the harness's reference encoder (validated against a second naive decoder in every case) with generated per-candidate convert decisions, streams delivered in generated chunk sizes; oracle: BCJ2Reader returns x for every read-size sequence. Non-trivial = filtered bytes differ from the raw bytes (BCJ2: >= 1 converted instruction). Distinct = hash of the case recipe."
    }

    fn floors(_tier: Tier) -> Vec<(&'static str, f64)> {
        vec![
            ("bcj0_conv", 3.0),
            ("bcj1_conv", 3.0),
            ("bcj2_conv", 3.0),
            ("bcj3_conv", 3.0),
            ("bcj4_conv", 3.0),
            ("bcj5_conv", 3.0),
            ("bcj6_conv", 3.0),
            ("bcj7_conv", 3.0),
            ("conv_spans_4096", 5.0),
            ("bcj2_both", 5.0),
            ("delta", 8.0),
        ]
    }

    fn assumptions() -> Vec<&'static str> {
        vec![
            "liblzma's filters are the reference for BCJ/Delta (obtained through raw encoder/decoder chains with LZMA2)",
            "no BCJ2 encoder exists in /repo or liblzma: the harness carries one written from the format description; it is cross-checked against a second naive decoder on every case before a verdict is believed",
        ]
    }

    fn run(case: &Case, obs: &mut Obs) -> Outcome {
        let data = case.data.expand();
        let cap = data.len() + (1 << 20);
        match &case.kind {
            Kind::Bcj { arch, start } => {
                let f = RefFilter::Bcj(*arch, *start);
                let ours = no_panic("bcj-write", || -> io::Result<Vec<u8>> {
                    let mut w = bcj_writer(Vec::new(), *arch, *start as usize);
                    w.write_all(&data)?;
                    w.flush()?;
                    Ok(w.into_inner())
                })?
                .map_err(|e| Failure::new("bcj-write-failed", e.to_string()))?;
                if ours.len() != data.len() {
                    return Err(Failure::new("bcj-length", format!("{} -> {}", data.len(), ours.len())));
                }
                let changed = ours != data;
                obs.nontrivial = changed;
                if changed {
                    obs.class(["bcj0_conv", "bcj1_conv", "bcj2_conv", "bcj3_conv", "bcj4_conv", "bcj5_conv", "bcj6_conv", "bcj7_conv"][*arch as usize % 8]);
                    // a converted instruction whose bytes span a 4096 boundary
                    let spans = (4096..data.len()).step_by(4096).any(|b| {
                        let lo = b.saturating_sub(8);
                        let hi = (b + 8).min(data.len());
                        (lo..b).any(|i| ours[i] != data[i]) && (b..hi).any(|i| ours[i] != data[i])
                    });
                    obs.class_if(spans, "conv_spans_4096");
                }
                let reference = ref_filter_encode(&data, &f).map_err(|e| Failure::new("harness:ref-filter", e))?;
                if ours != reference {
                    return Err(Failure::new(
                        "bcj-encode-differs-from-reference",
                        format!("{} start {start}: {}", BCJ_NAMES[*arch as usize % 8], first_diff(&ours, &reference)),
                    ));
                }
                // inverse
                let t = crate::p05::Target::Bcj { arch: *arch, start: *start };
                let back = no_panic("bcj-read", || t.read_from_pub(ours.clone(), data.len(), &case.sizes, cap))?;
                match back {
                    Ok(o) if o == data => {}
                    Ok(o) => {
                        return Err(Failure::new(
                            "bcj-inverse-mismatch",
                            format!("{} start {start}: {}", BCJ_NAMES[*arch as usize % 8], first_diff(&o, &data)),
                        ))
                    }
                    Err(e) => return Err(Failure::new("bcj-inverse-error", e.to_string())),
                }
                // decoder differential on the raw bytes themselves (arbitrary "filtered" input)
                let ref_dec = ref_filter_decode(&data, &f).map_err(|e| Failure::new("harness:ref-filter", e))?;
                let our_dec = no_panic("bcj-read", || t.read_from_pub(data.clone(), data.len(), &case.sizes, cap))?;
                match our_dec {
                    Ok(o) if o == ref_dec => Ok(()),
                    Ok(o) => Err(Failure::new(
                        "bcj-decode-differs-from-reference",
                        format!("{} start {start}: {}", BCJ_NAMES[*arch as usize % 8], first_diff(&o, &ref_dec)),
                    )),
                    Err(e) => Err(Failure::new("bcj-decode-error", e.to_string())),
                }
            }
            Kind::Delta { dist } => {
                obs.class("delta");
                obs.class_if(case.wplan.iter().any(|&n| n != 0) && data.len() > case.wplan[0] as usize, "delta_multiwrite");
                let f = RefFilter::Delta(*dist);
                let ours = no_panic("delta-write", || -> io::Result<Vec<u8>> {
                    let mut w = DeltaWriter::new(Vec::new(), *dist as usize);
                    if case.wplan.iter().all(|&n| n == 0) {
                        w.write_all(&data)?;
                    } else {
                        let mut off = 0usize;
                        let mut i = 0usize;
                        while off < data.len() {
                            let n = (case.wplan[i % case.wplan.len()] as usize).min(data.len() - off);
                            i += 1;
                            w.write_all(&data[off..off + n])?;
                            off += n;
                        }
                    }
                    Ok(w.into_inner())
                })?
                .map_err(|e| Failure::new("delta-write-failed", e.to_string()))?;
                obs.nontrivial = ours != data;
                let reference = ref_filter_encode(&data, &f).map_err(|e| Failure::new("harness:ref-filter", e))?;
                if ours != reference {
                    return Err(Failure::new("delta-encode-differs-from-reference", format!("dist {dist}: {}", first_diff(&ours, &reference))));
                }
                let sizes = case.sizes.clone();
                let o2 = ours.clone();
                let d = *dist as usize;
                let back = no_panic("delta-read", move || {
                    let mut r = DeltaReader::new(o2.as_slice(), d);
                    read_all(&mut r, &sizes, cap)
                })?;
                match back {
                    Ok(o) if o == data => {}
                    Ok(o) => return Err(Failure::new("delta-inverse-mismatch", format!("dist {dist}: {}", first_diff(&o, &data)))),
                    Err(e) => return Err(Failure::new("delta-inverse-error", e.to_string())),
                }
                let ref_dec = ref_filter_decode(&data, &f).map_err(|e| Failure::new("harness:ref-filter", e))?;
                let sizes = case.sizes.clone();
                let d2 = data.clone();
                let our_dec = no_panic("delta-read", move || {
                    let mut r = DeltaReader::new(d2.as_slice(), d);
                    read_all(&mut r, &sizes, cap)
                })?;
                match our_dec {
                    Ok(o) if o == ref_dec => Ok(()),
                    Ok(o) => Err(Failure::new("delta-decode-differs-from-reference", format!("dist {dist}: {}", first_diff(&o, &ref_dec)))),
                    Err(e) => Err(Failure::new("delta-decode-error", e.to_string())),
                }
            }
            Kind::Bcj2 {
                decide_seed,
                convert_pct,
                chunk,
            } => {
                obs.class("bcj2");
                let mut r = Prng::new(*decide_seed);
                let pct = *convert_pct as u64;
                let s = bcj2_encode(&data, |_| r.below(100) < pct);
                // validate the reference encoder with the second decoder first
                match bcj2_naive_decode(&s, data.len()) {
                    Some(o) if o == data => {}
                    _ => return Err(Failure::new("harness:bcj2-encoder", "reference encoder / naive decoder disagree")),
                }
                obs.nontrivial = s.converted_calls + s.converted_jumps > 0;
                obs.class_if(s.converted_calls > 0 && s.converted_jumps > 0, "bcj2_both");
                let mk = |d: &Vec<u8>| Chunked {
                    data: d.clone(),
                    pos: 0,
                    cycle: chunk.clone(),
                    i: 0,
                };
                let inputs = vec![mk(&s.main), mk(&s.call), mk(&s.jump), mk(&s.rc)];
                let sizes = case.sizes.clone();
                let n = data.len();
                let r = no_panic("bcj2-read", move || {
                    let mut rd = BCJ2Reader::new(inputs, n as u64);
                    read_all(&mut rd, &sizes, cap)
                })?;
                match r {
                    Ok(o) if o == data => Ok(()),
                    Ok(o) => Err(Failure::new(
                        "bcj2-mismatch",
                        format!("{} calls {} jumps converted of {} candidates: {}", s.converted_calls, s.converted_jumps, s.candidates, first_diff(&o, &data)),
                    )),
                    Err(e) => Err(Failure::new(
                        "bcj2-error",
                        format!("{} calls {} jumps converted of {} candidates, {} bytes: {e}", s.converted_calls, s.converted_jumps, s.candidates, n),
                    )),
                }
            }
        }
    }
}
