//! C08 / C09 / C10 (and the MT part of C13): multi-threaded readers and writers under the
//! deterministic scheduler (shuttle). Only compiled with --cfg lzma_rust2_verif_shuttle.

use std::io::{self, Cursor, Read, Write};
use std::num::NonZeroU64;
use std::panic::{catch_unwind, AssertUnwindSafe};
use std::sync::atomic::{AtomicUsize, Ordering};
use std::sync::{Arc, Mutex};

use lzma_rust2::verif_api::{take_counters, VerifQueue};
use lzma_rust2::{LZIPReaderMT, LZIPWriterMT, LZMA2Options, LZMA2ReaderMT, LZMA2WriterMT};
use proptest::prelude::*;
use serde::{Deserialize, Serialize};
use shuttle::scheduler::{DfsScheduler, PctScheduler, RandomScheduler, RoundRobinScheduler};
use shuttle::{Config, FailurePersistence, MaxSteps, Runner};

use crate::codec::*;
use crate::cont::*;
use crate::engine::*;
use crate::fio::*;
use crate::gen::*;

#[derive(Clone, Debug, Serialize, Deserialize, PartialEq)]
pub enum Sched {
    Random { seed: u64 },
    Pct { seed: u64, depth: u8 },
    RoundRobin,
    Dfs { cap: u32 },
}

pub fn sched_strategy() -> BoxedStrategy<Sched> {
    prop_oneof![
        5 => any::<u64>().prop_map(|seed| Sched::Random { seed }),
        5 => (any::<u64>(), 1u8..5).prop_map(|(seed, depth)| Sched::Pct { seed, depth }),
        1 => Just(Sched::RoundRobin),
    ]
    .boxed()
}

pub struct RunInfo {
    pub iterations: usize,
}

/// Runs `f` under `iters` schedules. A deadlock, an exceeded step bound or a panic inside `f`
/// becomes a Failure. The closure must create all of its state itself.
pub fn run_schedules(s: &Sched, iters: usize, max_steps: usize, f: impl Fn() + Send + Sync + 'static) -> Result<RunInfo, Failure> {
    let mut cfg = Config::new();
    cfg.stack_size = 8 << 20;
    cfg.failure_persistence = FailurePersistence::None;
    cfg.max_steps = MaxSteps::FailAfter(max_steps);
    cfg.silence_warnings = true;
    let s = s.clone();
    let r = guarded(move || {
        let n = match s {
            Sched::Random { seed } => Runner::new(RandomScheduler::new_from_seed(seed, iters), cfg).run(f),
            Sched::Pct { seed, depth } => Runner::new(PctScheduler::new_from_seed(seed, depth.max(1) as usize, iters), cfg).run(f),
            Sched::RoundRobin => Runner::new(RoundRobinScheduler::new(1), cfg).run(f),
            Sched::Dfs { cap } => Runner::new(DfsScheduler::new(Some(cap as usize), false), cfg).run(f),
        };
        Ok(n)
    });
    match r {
        Ok(n) => Ok(RunInfo { iterations: n }),
        Err(mut f) => {
            let d = f.detail.clone();
            if d.contains("did not exercise any concurrency") {
                // PCT needs at least one scheduling point; a scenario without any (e.g. the
                // constructor rejects the input) has nothing to interleave
                return Ok(RunInfo { iterations: 1 });
            }
            if d.contains("deadlock") {
                f.sig = "deadlock".into();
            } else if d.contains("exceeded max_steps") || d.contains("max_steps") {
                f.sig = "step-bound".into();
            } else if let Some(rest) = d.strip_prefix("VERIF:") {
                // oracle failures raised inside the scenario closure carry their own signature
                let sig = rest.split("::").next().unwrap_or("oracle").trim().to_string();
                f.sig = sig;
            }
            Err(f)
        }
    }
}

fn vfail(sig: &str, detail: String) -> ! {
    panic!("VERIF:{sig}:: {detail}");
}

#[derive(Clone, Copy, Debug, Serialize, Deserialize, PartialEq)]
pub enum Fmt {
    Lzma2,
    Lzip,
}

fn small_opts() -> BoxedStrategy<Opts> {
    (opts_strategy(16_384, true), prop_oneof![3 => Just(4096u32), 2 => 4096u32..=16_384]).prop_map(|(mut o, d)| {
        o.dict_size = d;
        // keep the cost of a schedule low
        o.depth = o.depth.min(16);
        o
    })
    .boxed()
}

fn mt_data(max_units: u32) -> BoxedStrategy<Data> {
    proptest::collection::vec(
        prop_oneof![
            (2000u32..9000, any::<u64>()).prop_map(|(len, seed)| Seg::Mixed { len, seed }),
            (2000u32..9000, any::<u64>()).prop_map(|(len, seed)| Seg::Text { len, seed }),
            (1000u32..6000, any::<u64>()).prop_map(|(len, seed)| Seg::Rand { len, seed }),
            seg_strategy(6000),
        ],
        0..=(max_units as usize),
    )
    .prop_map(|segs| Data { segs })
    .boxed()
}

fn l2_options(opts: &Opts, unit: u64, preset: Option<Vec<u8>>) -> LZMA2Options {
    let mut o = opts.to_lzma();
    o.preset_dict = preset;
    let mut l2 = LZMA2Options {
        lzma_options: o,
        chunk_size: None,
    };
    l2.set_chunk_size(NonZeroU64::new(unit));
    l2
}

#[allow(clippy::too_many_arguments)]
fn mt_write(fmt: Fmt, opts: &Opts, unit: u64, workers: u32, data: &[u8], plan: &Plan, flush_mid: bool, preset: Option<Vec<u8>>) -> io::Result<Vec<u8>> {
    let pieces = plan.pieces(data);
    let mid = pieces.len() / 2;
    match fmt {
        Fmt::Lzma2 => {
            let mut w = LZMA2WriterMT::new(Vec::new(), l2_options(opts, unit, preset), workers)?;
            for (i, p) in pieces.iter().enumerate() {
                w.write_all(p)?;
                if flush_mid && i == mid {
                    w.flush()?;
                }
            }
            w.finish()
        }
        Fmt::Lzip => {
            let cfg = LzipCfg {
                opts: opts.clone(),
                member: Some(unit),
            };
            let mut w = LZIPWriterMT::new(Vec::new(), lzip_options(&cfg), workers)?;
            for (i, p) in pieces.iter().enumerate() {
                w.write_all(p)?;
                if flush_mid && i == mid {
                    w.flush()?;
                }
            }
            w.finish()
        }
    }
}

fn mt_read<R: Read + io::Seek>(fmt: Fmt, src: R, dict: u32, preset: Option<&[u8]>, workers: u32, sizes: &[u32], cap: usize) -> io::Result<(Vec<u8>, u64)> {
    // every call must return: also the calls after an error and after the end of the stream
    let mut again = [0u8; 64];
    match fmt {
        Fmt::Lzma2 => {
            let mut r = LZMA2ReaderMT::new(src, dict, preset, workers);
            let out = read_all(&mut r, sizes, cap);
            let _ = r.read(&mut again);
            let _ = r.read(&mut again);
            let out = out?;
            Ok((out, r.chunk_count()))
        }
        Fmt::Lzip => {
            let mut r = LZIPReaderMT::new(src, workers)?;
            let out = read_all(&mut r, sizes, cap);
            let _ = r.read(&mut again);
            let _ = r.read(&mut again);
            let out = out?;
            Ok((out, r.member_count() as u64))
        }
    }
}

/// LZMA2 stream of independent units: every slice of `unit` bytes encoded by a fresh writer, the end markers of
/// all but the last removed (what the MT writer produces).
fn lzma2_units(data: &[u8], opts: &Opts, unit: u64) -> Result<Vec<u8>, Failure> {
    let mut s = Vec::new();
    let pieces: Vec<&[u8]> = if data.is_empty() { vec![data] } else { data.chunks((unit as usize).max(1)).collect() };
    for (i, piece) in pieces.iter().enumerate() {
        let mut part = encode_lzma(piece, opts, None, &Framing::Lzma2 { chunk: None }, &Plan::All)?;
        if i + 1 < pieces.len() {
            part.pop();
        }
        s.extend_from_slice(&part);
    }
    Ok(s)
}

/// Sink for the writer scenarios of C10: fails in one of four ways.
struct FailSink {
    calls: usize,
    /// 0: at write call `at`; 1: on a write of the single byte 0x00 (the LZMA2 end marker); 2: on flush; 3: at the first call
    mode: u8,
    at: usize,
}

impl Write for FailSink {
    fn write(&mut self, b: &[u8]) -> io::Result<usize> {
        let c = self.calls;
        self.calls += 1;
        let fail = match self.mode {
            0 => c == self.at,
            1 => b == [0u8],
            3 => c == 0,
            _ => false,
        };
        if fail {
            return Err(io::Error::new(io::ErrorKind::PermissionDenied, "VERIF-INJECTED"));
        }
        Ok(b.len())
    }
    fn flush(&mut self) -> io::Result<()> {
        if self.mode == 2 {
            return Err(io::Error::new(io::ErrorKind::PermissionDenied, "VERIF-INJECTED"));
        }
        Ok(())
    }
}

fn st_read(fmt: Fmt, stream: &[u8], dict: u32, preset: Option<&[u8]>, cap: usize) -> io::Result<Vec<u8>> {
    match fmt {
        Fmt::Lzma2 => {
            let mut r = lzma_rust2::LZMA2Reader::new(stream, dict, preset);
            read_all(&mut r, &[1 << 16], cap)
        }
        Fmt::Lzip => {
            let mut r = lzma_rust2::LZIPReader::new(stream)?;
            read_all(&mut r, &[1 << 16], cap)
        }
    }
}

// ---------------------------------------------------------------------------------------------
// C08

#[derive(Clone, Debug, Serialize, Deserialize, PartialEq)]
pub enum Src {
    /// stream written by the MT writer inside the schedule (optionally given a preset
    /// dictionary, which the MT writer documents to ignore: units are independent)
    MtWriter { flush_mid: bool, preset: Option<Data> },
    /// ST LZMA2 writer flushed every `every` bytes: many chunks per unit, uncompressed chunks
    /// followed by LZMA chunks with state / property resets but no dictionary reset
    StFlushed { every: u32, chunked: bool },
    /// LZIP file concatenated from separately written members, empty ones included
    LzipParts { parts: Vec<Data> },
    /// ST writer with chunk/member size (independent units)
    StUnits,
    /// ST writer without chunk size: one unit of dependent chunks (LZMA2 only)
    StDependent,
    /// ST writer with a preset dictionary (LZMA2 only)
    StPreset { preset: Data, chunked: bool },
    /// LZIP members followed by non-member bytes
    LzipTrailing { tail: Vec<u8> },
}

#[derive(Clone, Debug, Serialize, Deserialize)]
pub struct Case8 {
    pub data: Data,
    pub opts: Opts,
    pub fmt: Fmt,
    /// unit size = dict_size * mult / 2 (so that sizes below the dictionary are clamped)
    pub unit_half_mult: u8,
    pub src: Src,
    pub workers_w: u32,
    pub workers_r: u32,
    pub plan: Plan,
    pub sizes: Vec<u32>,
    pub sched: Sched,
    pub iters: u16,
}

pub struct C08;

fn workers_strategy() -> BoxedStrategy<u32> {
    prop_oneof![1 => Just(0u32), 3 => Just(1u32), 5 => Just(2u32), 5 => 3u32..=5].boxed()
}

impl Property for C08 {
    type Case = Case8;
    const ID: &'static str = "C08";

    fn families(_tier: Tier) -> u32 {
        9
    }

    fn strategy(tier: Tier, family: u32) -> BoxedStrategy<Case8> {
        let src = match family {
            0 | 1 => (any::<bool>(), prop_oneof![2 => Just(None), 1 => data_strategy(2, 3000).prop_map(Some)])
                .prop_map(|(flush_mid, preset)| Src::MtWriter { flush_mid, preset })
                .boxed(),
            6 | 7 => (200u32..4000, any::<bool>()).prop_map(|(every, chunked)| Src::StFlushed { every, chunked }).boxed(),
            8 => proptest::collection::vec(prop_oneof![2 => Just(Data::default()), 3 => data_strategy(2, 3000)], 1..7)
                .prop_map(|parts| Src::LzipParts { parts })
                .boxed(),
            2 => Just(Src::StUnits).boxed(),
            3 => Just(Src::StDependent).boxed(),
            4 => (data_strategy(2, 3000), any::<bool>()).prop_map(|(preset, chunked)| Src::StPreset { preset, chunked }).boxed(),
            _ => proptest::collection::vec(any::<u8>(), 1..40)
                .prop_map(|mut tail| {
                    if tail[0] == b'L' {
                        tail[0] = b'x';
                    }
                    Src::LzipTrailing { tail }
                })
                .boxed(),
        };
        let iters = tier.pick(40u16, 300);
        (
            mt_data(8),
            small_opts(),
            any::<bool>(),
            1u8..5,
            src,
            workers_strategy(),
            workers_strategy(),
            plan_strategy(),
            read_sizes_strategy(),
            sched_strategy(),
        )
            .prop_map(move |(data, opts, lzip, unit_half_mult, src, workers_w, workers_r, plan, sizes, sched)| {
                let fmt = match &src {
                    Src::StDependent | Src::StPreset { .. } | Src::StFlushed { .. } => Fmt::Lzma2,
                    Src::MtWriter { preset: Some(_), .. } => Fmt::Lzma2,
                    Src::LzipTrailing { .. } | Src::LzipParts { .. } => Fmt::Lzip,
                    _ => {
                        if lzip {
                            Fmt::Lzip
                        } else {
                            Fmt::Lzma2
                        }
                    }
                };
                Case8 {
                    data,
                    opts,
                    fmt,
                    unit_half_mult,
                    src,
                    workers_w,
                    workers_r,
                    plan,
                    sizes,
                    sched,
                    iters,
                }
            })
            .boxed()
    }

    fn budget(tier: Tier) -> u64 {
        tier.pick(1600, 9000)
    }

    fn shrink_iters(_tier: Tier) -> Option<u32> {
        Some(0)
    }

    fn rule() -> &'static str {
        "scenario = (data of 0-8 segments, LZMA options with a 4-16 KiB dictionary, LZMA2 or LZIP, unit size, stream source: MT writer (+/- flush) / ST writer with independent units / ST writer with one unit of dependent chunks / preset dictionary / LZIP with trailing bytes, worker counts 1-5, write plan, read sizes) x `iters` schedules of the shuttle scheduler (random, PCT depth 1-4, round robin) seeded from the case. Model = the single-threaded path run outside the scheduler: an MT-written stream must decode with the ST reader and with the MT reader to the written bytes; the MT reader must return exactly what the ST reader returns. evaluations counts schedules. Non-trivial = the scenario had >= 2 units and an out-of-order result or a second worker was observed (hook counters). Distinct = hash of the case recipe."
    }

    fn floors(_tier: Tier) -> Vec<(&'static str, f64)> {
        vec![("multi_unit", 30.0), ("out_of_order", 2.0), ("two_workers", 8.0), ("mt_writer", 15.0), ("dependent_or_preset", 15.0), ("flushed", 10.0), ("mt_writer_preset", 3.0), ("empty_unit_inside", 2.0)]
    }

    fn assumptions() -> Vec<&'static str> {
        vec![
            "shuttle serialises execution at synchronisation operations and is sequentially consistent: weak-memory effects and data races between two sync points are out of reach",
            "failing MT cases are reported unshrunk (the process is not reused after a scheduler failure)",
        ]
    }

    fn known(case: &Case8, f: &Failure) -> Option<&'static str> {
        if matches!(case.src, Src::LzipTrailing { .. }) && f.sig == "mt-reader-rejects" {
            return Some("KF-LZIPMT-TRAILING");
        }
        None
    }

    fn run(case: &Case8, obs: &mut Obs) -> Outcome {
        let data = Arc::new(case.data.expand());
        let dict = case.opts.dict_size;
        let unit = (dict as u64 * case.unit_half_mult as u64 / 2).max(1);
        let eff_unit = unit.max(dict as u64) as usize;
        let units = if data.is_empty() { 0 } else { data.len().div_ceil(eff_unit) };
        obs.class_if(units >= 2, "multi_unit");
        let cap = data.len() + (1 << 20);
        let fmt = case.fmt;
        let opts = case.opts.clone();
        let _ = take_counters();

        // streams produced outside the scheduler
        let mut preset_bytes: Option<Vec<u8>> = None;
        let mut writer_preset: Option<Vec<u8>> = None;
        let mut model_data: Option<Vec<u8>> = None;
        let pre_stream: Option<Vec<u8>> = match &case.src {
            Src::MtWriter { preset, .. } => {
                obs.class("mt_writer");
                writer_preset = preset.as_ref().map(|p| p.expand()).filter(|p| !p.is_empty());
                obs.class_if(writer_preset.is_some(), "mt_writer_preset");
                None
            }
            Src::StFlushed { every, chunked } => {
                obs.class("dependent_or_preset");
                obs.class("flushed");
                let mut l2 = l2_options(&opts, unit, None);
                if !*chunked {
                    l2.chunk_size = None;
                }
                let d = data.clone();
                let every = (*every as usize).max(1);
                let s = no_panic("st-flushed-write", move || -> io::Result<Vec<u8>> {
                    let mut w = lzma_rust2::LZMA2Writer::new(Vec::new(), l2);
                    for c in d.chunks(every) {
                        w.write_all(c)?;
                        w.flush()?;
                    }
                    w.finish()
                })?
                .map_err(|e| Failure::new("harness:st-write", e.to_string()))?;
                Some(s)
            }
            Src::LzipParts { parts } => {
                obs.class("lzip_parts");
                let mut s = Vec::new();
                let mut all = Vec::new();
                let mut empties_inside = false;
                for (i, p) in parts.iter().enumerate() {
                    let d = p.expand();
                    if d.is_empty() && i > 0 && i + 1 < parts.len() {
                        empties_inside = true;
                    }
                    s.extend_from_slice(&encode_lzip(&d, &LzipCfg { opts: opts.clone(), member: None }, &Plan::All)?);
                    all.extend_from_slice(&d);
                }
                obs.class_if(empties_inside, "empty_unit_inside");
                model_data = Some(all);
                Some(s)
            }
            Src::StUnits => Some(match fmt {
                // independent units encoded one by one (see C09): the ST writer with a chunk size rarely cuts any
                Fmt::Lzma2 if data.len() % 3 != 0 => {
                    let mut s = Vec::new();
                    let pieces: Vec<&[u8]> = if data.is_empty() { vec![&data[..]] } else { data.chunks((unit as usize).max(1)).collect() };
                    for (i, piece) in pieces.iter().enumerate() {
                        let mut part = encode_lzma(piece, &opts, None, &Framing::Lzma2 { chunk: None }, &Plan::All)?;
                        if i + 1 < pieces.len() {
                            part.pop();
                        }
                        s.extend_from_slice(&part);
                    }
                    s
                }
                Fmt::Lzma2 => encode_lzma(&data, &opts, None, &Framing::Lzma2 { chunk: Some(unit) }, &Plan::Fixed(1500))?,
                Fmt::Lzip => encode_lzip(&data, &LzipCfg { opts: opts.clone(), member: Some(unit) }, &Plan::Fixed(1500))?,
            }),
            Src::StDependent => {
                obs.class("dependent_or_preset");
                Some(encode_lzma(&data, &opts, None, &Framing::Lzma2 { chunk: None }, &case.plan)?)
            }
            Src::StPreset { preset, chunked } => {
                obs.class("dependent_or_preset");
                let p = preset.expand();
                let p = if p.is_empty() { None } else { Some(p) };
                let s = encode_lzma(&data, &opts, p.as_deref(), &Framing::Lzma2 { chunk: if *chunked { Some(unit) } else { None } }, &Plan::Fixed(1500))?;
                preset_bytes = p;
                Some(s)
            }
            Src::LzipTrailing { tail } => {
                obs.class("lzip_trailing");
                let mut s = encode_lzip(&data, &LzipCfg { opts: opts.clone(), member: Some(unit) }, &Plan::Fixed(1500))?;
                s.extend_from_slice(tail);
                Some(s)
            }
        };
        // the single-threaded model
        let expected: Arc<Vec<u8>> = match &pre_stream {
            None => data.clone(),
            Some(s) => {
                let r = no_panic("st-model", || st_read(fmt, s, dict, preset_bytes.as_deref(), cap))?;
                match r {
                    Ok(o) => {
                        let want: &[u8] = model_data.as_deref().unwrap_or(&data);
                        if o != want {
                            return Err(Failure::new("harness:st-model", "ST reader does not return the data (C01/C02 territory)"));
                        }
                        Arc::new(o)
                    }
                    Err(e) => return Err(Failure::new("harness:st-model", e.to_string())),
                }
            }
        };

        let plan = case.plan.clone();
        let sizes = case.sizes.clone();
        let (ww, wr) = (case.workers_w, case.workers_r);
        let flush_mid = matches!(case.src, Src::MtWriter { flush_mid: true, .. });
        let wp = writer_preset.map(Arc::new);
        let pre = pre_stream.map(Arc::new);
        let preset_arc = preset_bytes.map(Arc::new);
        let d2 = data.clone();
        let exp = expected.clone();
        let info = run_schedules(&case.sched, case.iters as usize, 3_000_000, move || {
            let stream: Vec<u8> = match &pre {
                Some(s) => s.as_ref().clone(),
                None => {
                    let s = match mt_write(fmt, &opts, unit, ww, &d2, &plan, flush_mid, wp.as_ref().map(|p| p.as_ref().clone())) {
                        Ok(s) => s,
                        Err(e) => vfail("mt-writer-error", format!("{e}")),
                    };
                    // units are independent: the stream decodes without the preset dictionary
                    // (and, since every unit starts with a dictionary reset, also with it)
                    for with in [false, true] {
                        let p = if with { wp.as_ref().map(|p| p.as_slice()) } else { None };
                        if with && p.is_none() {
                            continue;
                        }
                        match st_read(fmt, &s, dict, p, cap) {
                            Ok(o) if o == *d2 => {}
                            Ok(o) => vfail("mt-written-st-decoded-mismatch", first_diff(&o, &d2)),
                            Err(e) => vfail("mt-written-st-rejected", format!("{e} (reader preset: {with})")),
                        }
                    }
                    s
                }
            };
            match mt_read(fmt, Cursor::new(stream), dict, preset_arc.as_ref().map(|p| p.as_slice()), wr, &sizes, cap) {
                Ok((o, _)) if o == *exp => {}
                Ok((o, _)) => vfail("mt-reader-mismatch", first_diff(&o, &exp)),
                Err(e) => vfail("mt-reader-rejects", format!("{e}")),
            }
        })?;
        obs.evals = info.iterations as u64;
        let c = take_counters();
        obs.class_if(c[4] > 0, "out_of_order");
        let objects = if matches!(case.src, Src::MtWriter { .. }) { 2 } else { 1 };
        let second_worker = c[5] as usize > info.iterations * objects;
        obs.class_if(second_worker, "two_workers");
        obs.nontrivial = units >= 2 && (c[4] > 0 || second_worker);
        Ok(())
    }
}

// ---------------------------------------------------------------------------------------------
// C09

#[derive(Clone, Debug, Serialize, Deserialize, PartialEq)]
pub enum Fault9 {
    Valid,
    /// damage inside the stream: position (permille of the length), xor value
    Corrupt { at: u16, xor: u8 },
    Truncated { at: u16 },
    ZeroBytes,
    /// LZMA2: the 0x00 end marker is removed
    MissingTerminator,
    /// the source fails at read call j (permille of the clean call count)
    InnerReadErr { at: u16, kind: u8 },
    /// writer: the sink fails at write call j
    SinkErr { at: u16, kind: u8 },
    /// writer history on a healthy sink: flush() before the first write, between the writes selected by the mask
    /// (twice in a row where `twice`), after the last write; empty writes in between; then finish()
    WriterOps { flush_first: bool, flush_mask: u32, twice: bool, flush_last: bool, empty_writes: bool },
}

#[derive(Clone, Debug, Serialize, Deserialize)]
pub struct Case9 {
    pub data: Data,
    pub opts: Opts,
    pub fmt: Fmt,
    pub unit_half_mult: u8,
    pub fault: Fault9,
    pub workers: u32,
    pub plan: Plan,
    pub sizes: Vec<u32>,
    pub sched: Sched,
    pub iters: u16,
}

pub struct C09;

/// A Read + Seek source that fails at a given call (Send, unlike fio::FaultReader).
struct FailingSrc {
    data: Vec<u8>,
    pos: usize,
    calls: Arc<AtomicUsize>,
    err_at: Option<(usize, io::ErrorKind)>,
    reached: Arc<AtomicUsize>,
}

impl Read for FailingSrc {
    fn read(&mut self, buf: &mut [u8]) -> io::Result<usize> {
        let c = self.calls.fetch_add(1, Ordering::SeqCst);
        if let Some((at, kind)) = self.err_at {
            if c >= at {
                self.reached.store(1, Ordering::SeqCst);
                return Err(io::Error::new(kind, "VERIF-INJECTED"));
            }
        }
        let n = buf.len().min(self.data.len() - self.pos);
        buf[..n].copy_from_slice(&self.data[self.pos..self.pos + n]);
        self.pos += n;
        Ok(n)
    }
}

impl io::Seek for FailingSrc {
    fn seek(&mut self, pos: io::SeekFrom) -> io::Result<u64> {
        let len = self.data.len() as i64;
        let np = match pos {
            io::SeekFrom::Start(p) => p as i64,
            io::SeekFrom::End(d) => len + d,
            io::SeekFrom::Current(d) => self.pos as i64 + d,
        };
        if np < 0 {
            return Err(io::Error::new(io::ErrorKind::InvalidInput, "seek"));
        }
        self.pos = (np as usize).min(self.data.len());
        Ok(np as u64)
    }
}

struct FailingSink {
    out: Vec<u8>,
    calls: usize,
    err_at: Option<(usize, io::ErrorKind)>,
    reached: Arc<AtomicUsize>,
}

impl Write for FailingSink {
    fn write(&mut self, buf: &[u8]) -> io::Result<usize> {
        let c = self.calls;
        self.calls += 1;
        if let Some((at, kind)) = self.err_at {
            if c >= at {
                self.reached.store(1, Ordering::SeqCst);
                return Err(io::Error::new(kind, "VERIF-INJECTED"));
            }
        }
        self.out.extend_from_slice(buf);
        Ok(buf.len())
    }
    fn flush(&mut self) -> io::Result<()> {
        Ok(())
    }
}

impl Property for C09 {
    type Case = Case9;
    const ID: &'static str = "C09";

    fn families(_tier: Tier) -> u32 {
        9
    }

    fn strategy(tier: Tier, family: u32) -> BoxedStrategy<Case9> {
        let fault = match family {
            0 => Just(Fault9::Valid).boxed(),
            1 | 2 => (0u16..1000, 1u8..=255).prop_map(|(at, xor)| Fault9::Corrupt { at, xor }).boxed(),
            3 => (0u16..1000).prop_map(|at| Fault9::Truncated { at }).boxed(),
            4 => prop_oneof![Just(Fault9::ZeroBytes), Just(Fault9::MissingTerminator)].boxed(),
            5 | 6 => (0u16..1000, 0u8..4).prop_map(|(at, kind)| Fault9::InnerReadErr { at, kind }).boxed(),
            7 => (0u16..1000, 0u8..4).prop_map(|(at, kind)| Fault9::SinkErr { at, kind }).boxed(),
            _ => (any::<bool>(), prop_oneof![Just(0u32), any::<u32>(), Just(u32::MAX)], any::<bool>(), any::<bool>(), any::<bool>())
                .prop_map(|(flush_first, flush_mask, twice, flush_last, empty_writes)| Fault9::WriterOps { flush_first, flush_mask, twice, flush_last, empty_writes })
                .boxed(),
        };
        let iters = tier.pick(30u16, 300);
        (mt_data(6), small_opts(), any::<bool>(), 1u8..5, fault, prop_oneof![1 => Just(0u32), 10 => 1u32..=4], plan_strategy(), read_sizes_strategy(), sched_strategy())
            .prop_map(move |(data, opts, lzip, unit_half_mult, fault, workers, plan, sizes, sched)| Case9 {
                data,
                opts,
                fmt: if lzip { Fmt::Lzip } else { Fmt::Lzma2 },
                unit_half_mult,
                fault,
                workers,
                plan,
                sizes,
                sched,
                iters,
            })
            .boxed()
    }

    fn budget(tier: Tier) -> u64 {
        tier.pick(3200, 36_000)
    }

    fn shrink_iters(_tier: Tier) -> Option<u32> {
        Some(0)
    }

    fn rule() -> &'static str {
        "scenario = (data, options, LZMA2 or LZIP, unit size, workers 1-4, fault: none / byte damage inside the stream / truncation / zero-length input / missing LZMA2 terminator / source error at read call j / sink error at write call j / writer history on a healthy sink: flush before the first write, between writes, twice in a row, after the last write, empty writes, then finish) x `iters` shuttle schedules (random, PCT 1-4, round robin). Termination is decided by the scheduler: a dead-lock (no runnable task while the caller has not returned) or more than 3M scheduling points is a violation. Result oracle: Err, or Ok with exactly the original data; valid => Ok; reached source/sink error => Err of the injected kind; zero bytes / missing terminator / truncation => Err; damage => Err unless the exact data comes back. evaluations counts schedules. Non-trivial = a faulty scenario in which a worker took its error path or the injected fault was reached. Distinct = hash of the case recipe."
    }

    fn floors(_tier: Tier) -> Vec<(&'static str, f64)> {
        vec![("faulty", 60.0), ("worker_error_path", 15.0), ("fault_reached", 15.0), ("lzip", 25.0), ("lzma2", 25.0), ("writer_history", 5.0), ("flush_before_first_write", 2.0)]
    }

    fn assumptions() -> Vec<&'static str> {
        vec![
            "liveness is checked as dead-lock freedom plus a step bound under randomised, PCT and round-robin schedules; starvation needing an adversarial infinite schedule cannot be exhibited",
            "shuttle is sequentially consistent",
        ]
    }

    fn run(case: &Case9, obs: &mut Obs) -> Outcome {
        let data = Arc::new(case.data.expand());
        let dict = case.opts.dict_size;
        let unit = (dict as u64 * case.unit_half_mult as u64 / 2).max(1);
        let fmt = case.fmt;
        obs.class(if fmt == Fmt::Lzip { "lzip" } else { "lzma2" });
        let cap = data.len() + (1 << 20);
        let kind_of = |k: u8| KINDS[k as usize % 4];
        let _ = take_counters();
        obs.class_if(!matches!(case.fault, Fault9::Valid | Fault9::WriterOps { .. }), "faulty");
        let reached = Arc::new(AtomicUsize::new(0));

        if let Fault9::WriterOps { flush_first, flush_mask, twice, flush_last, empty_writes } = case.fault.clone() {
            // every writer call returns on a healthy sink, whatever the order of write / flush / finish, and the
            // result decodes (single-threaded reader) to the written bytes
            obs.class("writer_history");
            obs.class_if(flush_first, "flush_before_first_write");
            let opts = case.opts.clone();
            let plan = case.plan.clone();
            let workers = case.workers;
            let d2 = data.clone();
            let info = run_schedules(&case.sched, case.iters as usize, 3_000_000, move || {
                fn drive<W: Write>(w: &mut W, pieces: &[&[u8]], flush_first: bool, flush_mask: u32, twice: bool, flush_last: bool, empty_writes: bool) -> io::Result<()> {
                    if flush_first {
                        w.flush()?;
                        if twice {
                            w.flush()?;
                        }
                    }
                    for (i, p) in pieces.iter().enumerate() {
                        if empty_writes && i % 3 == 1 {
                            let n = w.write(&[])?;
                            if n != 0 {
                                return Err(io::Error::other("empty write returned non-zero"));
                            }
                        }
                        w.write_all(p)?;
                        if flush_mask >> (i % 32) & 1 == 1 {
                            w.flush()?;
                            if twice {
                                w.flush()?;
                            }
                        }
                    }
                    if flush_last {
                        w.flush()?;
                    }
                    Ok(())
                }
                let pieces = plan.pieces(&d2);
                let r: io::Result<Vec<u8>> = match fmt {
                    Fmt::Lzma2 => LZMA2WriterMT::new(Vec::new(), l2_options(&opts, unit, None), workers).and_then(|mut w| {
                        drive(&mut w, &pieces, flush_first, flush_mask, twice, flush_last, empty_writes)?;
                        w.finish()
                    }),
                    Fmt::Lzip => {
                        let cfg = LzipCfg { opts: opts.clone(), member: Some(unit) };
                        LZIPWriterMT::new(Vec::new(), lzip_options(&cfg), workers).and_then(|mut w| {
                            drive(&mut w, &pieces, flush_first, flush_mask, twice, flush_last, empty_writes)?;
                            w.finish()
                        })
                    }
                };
                match r {
                    Err(e) => vfail("writer-history-error", format!("write / flush / finish on a healthy sink failed: {e}")),
                    Ok(s) => match st_read(fmt, &s, dict, None, cap) {
                        Ok(o) if o == *d2 => {}
                        Ok(o) => vfail("writer-history-wrong-data", first_diff(&o, &d2)),
                        Err(e) => vfail("writer-history-undecodable", format!("{e}")),
                    },
                }
            })?;
            obs.evals = info.iterations as u64;
            let _ = take_counters();
            obs.nontrivial = flush_first || flush_mask != 0 || flush_last;
            return Ok(());
        }

        if let Fault9::SinkErr { at, kind } = &case.fault {
            // writer scenario
            let kind = kind_of(*kind);
            // clean call count with the ST-equivalent path is not needed: probe once outside
            let opts = case.opts.clone();
            let plan = case.plan.clone();
            let workers = case.workers;
            let at = *at as usize;
            let d2 = data.clone();
            let reached2 = reached.clone();
            let info = run_schedules(&case.sched, case.iters as usize, 3_000_000, move || {
                // the number of sink calls depends on the schedule only through batching; use a
                // position relative to a fixed small range
                let sink = FailingSink {
                    out: Vec::new(),
                    calls: 0,
                    err_at: Some((at % 3, kind)),
                    reached: reached2.clone(),
                };
                let r: io::Result<()> = (|| {
                    match fmt {
                        Fmt::Lzma2 => {
                            let mut w = LZMA2WriterMT::new(sink, l2_options(&opts, unit, None), workers)?;
                            for p in plan.pieces(&d2) {
                                w.write_all(p)?;
                            }
                            w.finish().map(|_| ())
                        }
                        Fmt::Lzip => {
                            let cfg = LzipCfg { opts: opts.clone(), member: Some(unit) };
                            let mut w = LZIPWriterMT::new(sink, lzip_options(&cfg), workers)?;
                            for p in plan.pieces(&d2) {
                                w.write_all(p)?;
                            }
                            w.finish().map(|_| ())
                        }
                    }
                })();
                let was = reached2.load(Ordering::SeqCst) == 1;
                match r {
                    Ok(()) if was => vfail("sink-error-swallowed", format!("sink failed with {kind:?}, every MT writer call reported success")),
                    Err(e) if was && e.kind() != kind => vfail("sink-error-kind-changed", format!("sink failed with {kind:?}, caller saw {:?} ({e})", e.kind())),
                    Err(e) if !was => vfail("writer-spurious-error", format!("{e}")),
                    _ => {}
                }
            })?;
            obs.evals = info.iterations as u64;
            let c = take_counters();
            obs.class_if(reached.load(Ordering::SeqCst) == 1, "fault_reached");
            obs.class_if(c[6] > 0, "worker_error_path");
            obs.nontrivial = reached.load(Ordering::SeqCst) == 1;
            return Ok(());
        }

        // reader scenarios: the stream is built outside the scheduler with the ST writer
        let mut stream = match fmt {
            // independent units: every slice of `unit` bytes encoded by a fresh writer, end markers of all but the
            // last removed (what the MT writer produces). The ST writer with a chunk size only starts a new unit
            // after it has emitted a chunk, which compressible data of this size never makes it do.
            Fmt::Lzma2 if case.unit_half_mult != 3 => {
                obs.class("lzma2_independent_units");
                let mut s = Vec::new();
                let pieces: Vec<&[u8]> = if data.is_empty() { vec![&data[..]] } else { data.chunks((unit as usize).max(1)).collect() };
                for (i, piece) in pieces.iter().enumerate() {
                    let mut part = encode_lzma(piece, &case.opts, None, &Framing::Lzma2 { chunk: None }, &Plan::All)?;
                    if i + 1 < pieces.len() {
                        part.pop();
                    }
                    s.extend_from_slice(&part);
                }
                s
            }
            Fmt::Lzma2 => encode_lzma(&data, &case.opts, None, &Framing::Lzma2 { chunk: Some(unit) }, &Plan::Fixed(1500))?,
            Fmt::Lzip if case.unit_half_mult == 1 => {
                // members written separately, with empty members in between (cat a.lz empty.lz b.lz)
                obs.class("empty_members");
                let cfg = LzipCfg { opts: case.opts.clone(), member: None };
                let empty = encode_lzip(&[], &cfg, &Plan::All)?;
                let third = data.len() / 3;
                let mut s = encode_lzip(&data[..third], &cfg, &Plan::All)?;
                s.extend_from_slice(&empty);
                s.extend_from_slice(&encode_lzip(&data[third..2 * third], &cfg, &Plan::All)?);
                s.extend_from_slice(&empty);
                s.extend_from_slice(&empty);
                s.extend_from_slice(&encode_lzip(&data[2 * third..], &cfg, &Plan::All)?);
                s
            }
            Fmt::Lzip => encode_lzip(&data, &LzipCfg { opts: case.opts.clone(), member: Some(unit) }, &Plan::Fixed(1500))?,
        };
        let mut err_at: Option<(usize, io::ErrorKind)> = None;
        let mut must_fail = false;
        match &case.fault {
            Fault9::Valid => {}
            Fault9::Corrupt { at, xor } => {
                if !stream.is_empty() {
                    let p = *at as usize * stream.len() / 1000;
                    stream[p] ^= *xor;
                }
            }
            Fault9::Truncated { at } => {
                let p = *at as usize * stream.len() / 1000;
                stream.truncate(p);
                must_fail = true;
            }
            Fault9::ZeroBytes => {
                stream.clear();
                must_fail = true;
            }
            Fault9::MissingTerminator => {
                if fmt == Fmt::Lzma2 {
                    stream.pop();
                    must_fail = true;
                }
            }
            Fault9::InnerReadErr { at, kind } => {
                // count the calls of a clean run (real threads are not involved: ST reader reads
                // the same bytes, but the MT coordinator's call pattern is its own; use a small
                // absolute range that every non-trivial stream reaches)
                err_at = Some(((*at as usize) % 6, kind_of(*kind)));
            }
            Fault9::SinkErr { .. } | Fault9::WriterOps { .. } => unreachable!(),
        }
        let valid = matches!(case.fault, Fault9::Valid);
        // Raw LZMA2 has no integrity check: damage inside a payload legitimately decodes to other
        // bytes. The single-threaded reader's verdict on the damaged stream is the model then.
        let mut st_model: Option<Vec<u8>> = if matches!(case.fault, Fault9::Corrupt { .. }) && fmt == Fmt::Lzma2 {
            no_panic("st-model", || st_read(fmt, &stream, dict, None, cap))?.ok()
        } else {
            None
        };
        // LZIP has no end marker: a file cut exactly at a member boundary is a valid (shorter) file. Whether the cut
        // left one is decided by the single-threaded reader; only then may the MT reader succeed, with the same bytes.
        if matches!(case.fault, Fault9::Truncated { .. }) && fmt == Fmt::Lzip && !stream.is_empty() {
            if let Ok(prefix) = no_panic("st-model", || st_read(fmt, &stream, dict, None, cap))? {
                obs.class("cut_at_member_boundary");
                must_fail = false;
                st_model = Some(prefix);
            }
        }
        let truncated_ok = matches!(case.fault, Fault9::Truncated { .. }) && st_model.is_some();
        let st_model = Arc::new(st_model);
        let stream = Arc::new(stream);
        let sizes = case.sizes.clone();
        let workers = case.workers;
        let d2 = data.clone();
        let reached2 = reached.clone();
        let info = run_schedules(&case.sched, case.iters as usize, 3_000_000, move || {
            let src = FailingSrc {
                data: stream.as_ref().clone(),
                pos: 0,
                calls: Arc::new(AtomicUsize::new(0)),
                err_at,
                reached: reached2.clone(),
            };
            let r = mt_read(fmt, src, dict, None, workers, &sizes, cap);
            let was = reached2.load(Ordering::SeqCst) == 1;
            match r {
                Ok((o, _)) => {
                    if was {
                        vfail("io-error-swallowed", format!("source failed, MT reader reported success with {} bytes", o.len()));
                    }
                    if truncated_ok {
                        // cut at a member boundary: exactly what the single-threaded reader returns
                        if st_model.as_ref().as_ref() != Some(&o) {
                            vfail("mt-reader-wrong-data", format!("file cut at a member boundary: MT reader returned {} bytes, single-threaded reader {:?}", o.len(), st_model.as_ref().as_ref().map(|v| v.len())));
                        }
                    } else if o != *d2 && st_model.as_ref().as_ref() != Some(&o) {
                        vfail("mt-reader-wrong-data", format!("success with {}", first_diff(&o, &d2)));
                    }
                    if must_fail {
                        vfail("mt-reader-accepts-incomplete-input", format!("reported success with the complete data for an input that is truncated / empty / unterminated ({} bytes)", o.len()));
                    }
                }
                Err(e) => {
                    if valid {
                        vfail("mt-reader-rejects-valid", format!("{e}"));
                    }
                    if let Some((_, kind)) = err_at {
                        if was && e.kind() != kind {
                            vfail("io-error-kind-changed", format!("source failed with {kind:?}, caller saw {:?} ({e})", e.kind()));
                        }
                    }
                }
            }
        })?;
        obs.evals = info.iterations as u64;
        let c = take_counters();
        obs.class_if(c[6] > 0, "worker_error_path");
        obs.class_if(reached.load(Ordering::SeqCst) == 1, "fault_reached");
        obs.nontrivial = !valid && (c[6] > 0 || reached.load(Ordering::SeqCst) == 1 || must_fail);
        Ok(())
    }
}

// ---------------------------------------------------------------------------------------------
// C10

#[derive(Clone, Debug, Serialize, Deserialize, PartialEq)]
pub enum Obj {
    Lzma2Reader,
    LzipReader,
    Lzma2Writer,
    LzipWriter,
    /// the work queue alone: producers push `items`, `consumers` steal, then close
    Queue { items: u8, consumers: u8, close_early: bool },
}

#[derive(Clone, Debug, Serialize, Deserialize, PartialEq)]
pub enum Prefix {
    Nothing,
    /// read / write about this many permille of the data, then stop
    Partial(u16),
    ToEnd,
    /// corrupt stream (readers) so that an error has happened before the drop
    AfterError,
}

#[derive(Clone, Debug, Serialize, Deserialize)]
pub struct Case10 {
    pub data: Data,
    pub opts: Opts,
    pub obj: Obj,
    pub max_workers: u32,
    pub prefix: Prefix,
    /// writers: call finish() instead of dropping
    pub finish: bool,
    pub sched: Sched,
    pub iters: u16,
}

pub struct C10;

impl Property for C10 {
    type Case = Case10;
    const ID: &'static str = "C10";

    fn families(_tier: Tier) -> u32 {
        5
    }

    fn strategy(tier: Tier, family: u32) -> BoxedStrategy<Case10> {
        let obj = match family {
            0 => Just(Obj::Lzma2Reader).boxed(),
            1 => Just(Obj::LzipReader).boxed(),
            2 => Just(Obj::Lzma2Writer).boxed(),
            3 => Just(Obj::LzipWriter).boxed(),
            _ => (0u8..3, 1u8..3, any::<bool>()).prop_map(|(items, consumers, close_early)| Obj::Queue { items, consumers, close_early }).boxed(),
        };
        let iters = tier.pick(60u16, 600);
        let sched = if family == 4 {
            prop_oneof![2 => Just(Sched::Dfs { cap: tier.pick(20_000, 400_000) }), 1 => sched_strategy()].boxed()
        } else {
            sched_strategy()
        };
        (
            mt_data(5),
            small_opts(),
            obj,
            prop_oneof![1 => Just(0u32), 6 => 1u32..=6, 1 => Just(300u32)],
            prop_oneof![Just(Prefix::Nothing), (0u16..1000).prop_map(Prefix::Partial), Just(Prefix::ToEnd), Just(Prefix::AfterError)],
            any::<bool>(),
            sched,
        )
            .prop_map(move |(data, opts, obj, max_workers, prefix, finish, sched)| Case10 {
                data,
                opts,
                obj,
                max_workers,
                prefix,
                finish,
                sched,
                iters,
            })
            .boxed()
    }

    fn budget(tier: Tier) -> u64 {
        tier.pick(2400, 14_000)
    }

    fn shrink_iters(_tier: Tier) -> Option<u32> {
        Some(0)
    }

    fn rule() -> &'static str {
        "history = construct an MT reader/writer with max_workers in {0, 1-6, 300}, perform a prefix of a read/write history (nothing / partial / to the end / up to an error), then drop it or call finish, all inside the shuttle scheduler (random, PCT 1-4, round robin); plus the work queue alone (0-2 items, 1-2 consumers, close before or after the pushes) explored by bounded depth-first search. Oracles: drop/finish return; when the scenario closure has returned every spawned task terminates (a task left blocked is reported by the scheduler as dead-lock = leaked thread); the number of spawned workers never exceeds clamp(max_workers, 1, 256); queue: every pushed item is stolen exactly once or still queued, steal() on a closed empty queue returns None. evaluations counts schedules. Non-trivial = the object is dropped before the end of the stream or after an error (workers may be inside steal() or mid-unit). Distinct = hash of the case recipe."
    }

    fn floors(_tier: Tier) -> Vec<(&'static str, f64)> {
        vec![("early_drop", 30.0), ("queue", 10.0), ("reader", 25.0), ("writer", 25.0)]
    }

    fn exhaustive(_tier: Tier) -> bool {
        false
    }

    fn run(case: &Case10, obs: &mut Obs) -> Outcome {
        let _ = take_counters();
        let iters = case.iters as usize;
        if let Obj::Queue { items, consumers, close_early } = &case.obj {
            obs.class("queue");
            let (items, consumers, close_early) = (*items as usize, *consumers as usize, *close_early);
            let info = run_schedules(&case.sched, iters, 200_000, move || {
                let q = Arc::new(VerifQueue::<usize>::new());
                let stolen = Arc::new(Mutex::new(Vec::<usize>::new()));
                let mut hs = Vec::new();
                for _ in 0..consumers {
                    let w = q.worker();
                    let st = stolen.clone();
                    hs.push(shuttle::thread::spawn(move || {
                        while let Some(x) = w.steal() {
                            st.lock().unwrap().push(x);
                        }
                        // closed and empty: must stay None
                        if w.steal().is_some() {
                            vfail("queue-steal-after-close", "steal returned an item after None".into());
                        }
                    }));
                }
                let mut accepted = Vec::new();
                if close_early {
                    q.close();
                }
                for i in 0..items {
                    if q.push(i) {
                        accepted.push(i);
                    }
                }
                if !close_early {
                    q.close();
                }
                for h in hs {
                    h.join().unwrap();
                }
                let mut got = stolen.lock().unwrap().clone();
                got.sort();
                let left = q.len();
                if got.len() + left != accepted.len() || got.windows(2).any(|w| w[0] == w[1]) {
                    vfail("queue-lost-or-duplicated", format!("accepted {accepted:?}, stolen {got:?}, still queued {left}"));
                }
            })?;
            obs.evals = info.iterations as u64;
            obs.nontrivial = true;
            obs.class_if(matches!(case.sched, Sched::Dfs { .. }), "queue_dfs");
            return Ok(());
        }

        let data = Arc::new(case.data.expand());
        let dict = case.opts.dict_size;
        let unit = dict as u64;
        let reader = matches!(case.obj, Obj::Lzma2Reader | Obj::LzipReader);
        obs.class(if reader { "reader" } else { "writer" });
        let fmt = if matches!(case.obj, Obj::Lzma2Reader | Obj::Lzma2Writer) { Fmt::Lzma2 } else { Fmt::Lzip };
        let early = !matches!(case.prefix, Prefix::ToEnd);
        obs.class_if(early, "early_drop");
        obs.nontrivial = early;
        let bound = case.max_workers.clamp(1, 256) as u64;
        let max_workers = case.max_workers;
        let prefix = case.prefix.clone();
        let finish = case.finish;
        let opts = case.opts.clone();
        let spawned_max = Arc::new(AtomicUsize::new(0));
        let sm = spawned_max.clone();

        let stream: Option<Arc<Vec<u8>>> = if reader {
            let mut s = match fmt {
                Fmt::Lzma2 => lzma2_units(&data, &case.opts, unit)?,
                Fmt::Lzip => encode_lzip(&data, &LzipCfg { opts: case.opts.clone(), member: Some(unit) }, &Plan::Fixed(1500))?,
            };
            if matches!(prefix, Prefix::AfterError) && s.len() > 40 {
                let p = s.len() / 2;
                s[p] ^= 0x55;
                s[p + 1] ^= 0xAA;
            }
            Some(Arc::new(s))
        } else {
            None
        };
        let d2 = data.clone();
        let info = run_schedules(&case.sched, iters, 3_000_000, move || {
            let _ = take_counters();
            if let Some(s) = &stream {
                let src = Cursor::new(s.as_ref().clone());
                let want = match prefix {
                    Prefix::Nothing => 0usize,
                    Prefix::Partial(p) => d2.len() * p as usize / 1000,
                    _ => usize::MAX,
                };
                let mut buf = vec![0u8; 3000];
                let mut got = 0usize;
                match fmt {
                    Fmt::Lzma2 => {
                        let mut r = LZMA2ReaderMT::new(src, dict, None, max_workers);
                        while got < want {
                            match r.read(&mut buf) {
                                Ok(0) | Err(_) => break,
                                Ok(n) => got += n,
                            }
                        }
                        drop(r);
                    }
                    Fmt::Lzip => {
                        if let Ok(mut r) = LZIPReaderMT::new(src, max_workers) {
                            while got < want {
                                match r.read(&mut buf) {
                                    Ok(0) | Err(_) => break,
                                    Ok(n) => got += n,
                                }
                            }
                            drop(r);
                        }
                    }
                }
            } else {
                let n = match prefix {
                    Prefix::Nothing => 0usize,
                    Prefix::Partial(p) => d2.len() * p as usize / 1000,
                    _ => d2.len(),
                };
                // "up to an error": the sink fails (at a write call, on the one-byte end marker, on flush, at once)
                let after_error = matches!(prefix, Prefix::AfterError);
                let dl = d2.len();
                let sink = move || FailSink {
                    calls: 0,
                    mode: if after_error { (dl % 4) as u8 } else { 9 },
                    at: dl % 7,
                };
                match fmt {
                    Fmt::Lzma2 => {
                        if let Ok(mut w) = LZMA2WriterMT::new(sink(), l2_options(&opts, unit, None), max_workers) {
                            for c in d2[..n].chunks(2500) {
                                if w.write_all(c).is_err() {
                                    break;
                                }
                            }
                            if finish {
                                let _ = w.finish();
                            } else {
                                drop(w);
                            }
                        }
                    }
                    Fmt::Lzip => {
                        let cfg = LzipCfg { opts: opts.clone(), member: Some(unit) };
                        if let Ok(mut w) = LZIPWriterMT::new(sink(), lzip_options(&cfg), max_workers) {
                            for c in d2[..n].chunks(2500) {
                                if w.write_all(c).is_err() {
                                    break;
                                }
                            }
                            if finish {
                                let _ = w.finish();
                            } else {
                                drop(w);
                            }
                        }
                    }
                }
            }
            let c = take_counters();
            sm.fetch_max(c[5] as usize, Ordering::SeqCst);
            if c[5] > bound {
                vfail("too-many-workers", format!("{} worker threads spawned, limit {bound} (requested {max_workers})", c[5]));
            }
        })?;
        obs.evals = info.iterations as u64;
        obs.class_if(spawned_max.load(Ordering::SeqCst) >= 2, "two_workers");
        Ok(())
    }
}
