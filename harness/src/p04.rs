//! C04 — corrupted XZ / LZIP input is never returned as valid different data.

use proptest::prelude::*;
use serde::{Deserialize, Serialize};

use crate::codec::*;
use crate::cont::*;
use crate::engine::*;
use crate::gen::*;
use crate::refimpl::{crc32, lzip_decode, xz_decode};
use crate::walk::*;

#[derive(Clone, Debug, Serialize, Deserialize)]
pub enum Base {
    Xz { cfg: XzCfg, plan: Plan },
    Lzip { cfg: LzipCfg, plan: Plan },
    /// one of the liblzma-made fixtures (index into gen::EXE_FILES), truncated copies are not
    /// used: the whole file
    Fixture(u8),
}

#[derive(Clone, Debug, Serialize, Deserialize)]
pub enum Mutation {
    /// every single-bit flip (all positions for files <= 600 bytes, `sample` positions beyond)
    BitFlips { seed: u64 },
    /// random byte substitutions
    Bytes { seed: u64, count: u16 },
    /// region edits: delete / duplicate / insert random / transpose
    Regions { seed: u64, count: u16 },
    /// structure-aware field edits, with and without recomputing the enclosing CRC32
    Fields { seed: u64 },
    /// arbitrary non-format input of the given length (incl. prefixes of other magics)
    Garbage { seed: u64, len: u16, flavour: u8 },
}

#[derive(Clone, Debug, Serialize, Deserialize)]
pub struct Case {
    pub data: Data,
    pub base: Base,
    pub mutation: Mutation,
    pub multi: bool,
    pub sizes: Vec<u32>,
    /// > 0 (LZIP bases only): the mutants are read with LZIPReaderMT and this many workers on real threads
    #[serde(default)]
    pub mt_workers: u8,
}

pub struct C04;

#[cfg(not(lzma_rust2_verif_shuttle))]
fn decode_lzip_mt(stream: &[u8], workers: u32, sizes: &[u32], cap: usize) -> Result<std::io::Result<Vec<u8>>, Failure> {
    let s = stream.to_vec();
    no_panic("lzip-mt-decode", move || {
        let mut r = lzma_rust2::LZIPReaderMT::new(std::io::Cursor::new(s), workers)?;
        read_all(&mut r, sizes, cap)
    })
}

#[cfg(lzma_rust2_verif_shuttle)]
fn decode_lzip_mt(stream: &[u8], _workers: u32, sizes: &[u32], cap: usize) -> Result<std::io::Result<Vec<u8>>, Failure> {
    decode_lzip(stream, sizes, cap)
}

fn small_unit_data() -> BoxedStrategy<Data> {
    prop_oneof![
        1 => Just(Data::default()),
        3 => data_strategy(2, 200),
        4 => data_strategy(3, 6000),
        4 => proptest::collection::vec(
            prop_oneof![
                (4000u32..12_000, any::<u64>()).prop_map(|(len, seed)| Seg::Mixed { len, seed }),
                seg_strategy(9000)
            ],
            2..5
        )
        .prop_map(|segs| Data { segs }),
    ]
    .boxed()
}

impl Property for C04 {
    type Case = Case;
    const ID: &'static str = "C04";

    fn families(_tier: Tier) -> u32 {
        10
    }

    fn strategy(_tier: Tier, family: u32) -> BoxedStrategy<Case> {
        let xz_base = || {
            (xz_cfg_strategy(1 << 14), plan_strategy()).prop_map(|(mut cfg, plan)| {
                cfg.check = 1 + cfg.check % 3;
                cfg.filters.retain(|f| !f.is_bcj());
                Base::Xz { cfg, plan }
            })
        };
        let base = prop_oneof![
            5 => xz_base(),
            4 => (lzip_cfg_strategy(1 << 14), plan_strategy()).prop_map(|(cfg, plan)| Base::Lzip { cfg, plan }),
            1 => (0u8..8).prop_map(Base::Fixture),
        ]
        .boxed();
        let mutation = match family {
            0..=2 => any::<u64>().prop_map(|seed| Mutation::BitFlips { seed }).boxed(),
            3 | 4 => (any::<u64>(), 20u16..200).prop_map(|(seed, count)| Mutation::Bytes { seed, count }).boxed(),
            5 | 6 => (any::<u64>(), 20u16..120).prop_map(|(seed, count)| Mutation::Regions { seed, count }).boxed(),
            7 | 8 => any::<u64>().prop_map(|seed| Mutation::Fields { seed }).boxed(),
            _ => (any::<u64>(), 1u16..200, 0u8..8)
                .prop_map(|(seed, len, flavour)| Mutation::Garbage { seed, len, flavour })
                .boxed(),
        };
        (small_unit_data(), base, mutation, any::<bool>(), read_sizes_strategy(), prop_oneof![2 => Just(0u8), 1 => 1u8..=3])
            .prop_map(|(data, base, mutation, multi, sizes, mt)| Case {
                data,
                mt_workers: if matches!(base, Base::Lzip { .. }) && !matches!(mutation, Mutation::BitFlips { .. }) { mt } else { 0 },
                base,
                mutation,
                multi,
                sizes,
            })
            .boxed()
    }

    fn budget(tier: Tier) -> u64 {
        tier.pick(1600, 8000)
    }

    fn rule() -> &'static str {
        "base = well-formed XZ file (CRC32/CRC64/SHA-256, 1-3 blocks, written by the crate, or one of the liblzma-made fixtures) or LZIP file (1-3 members); mutants are enumerated inside a case: every single-bit flip (exhaustive for bases <= 600 bytes, 3000 sampled positions beyond), byte substitutions, region delete/duplicate/insert/transpose, structure-aware edits of every header / size / count / CRC / trailer field found by the harness's walker with and without recomputing the enclosing CRC32, and arbitrary non-format byte strings. Oracle: the reader returns Err, or Ok with exactly the original content; Ok with different bytes is a violation unless liblzma also accepts the mutant with the same bytes (the edit produced a different valid file; LZIP trailing-data rule included); non-empty garbage must be Err. evaluations counts mutants; non-trivial = mutant differs from the base; distinct = (base hash, operator, position)."
    }

    fn floors(_tier: Tier) -> Vec<(&'static str, f64)> {
        vec![("xz", 30.0), ("lzip", 25.0), ("bitflips", 20.0), ("fields", 12.0), ("fixup", 8.0), ("garbage", 5.0), ("multi_unit", 10.0)]
    }

    fn exhaustive(_tier: Tier) -> bool {
        false
    }

    fn assumptions() -> Vec<&'static str> {
        vec![
            "liblzma arbitrates whether a mutant is a different valid file",
            "bit flips are exhaustive only for base files <= 600 bytes (class 'exhaustive_flips'), sampled beyond",
            "LZIPReaderMT reads a third of the LZIP mutants here on real threads (its schedules are explored in C09)",
        ]
    }

    fn run(case: &Case, obs: &mut Obs) -> Outcome {
        let data = case.data.expand();
        let (base, is_xz, content): (Vec<u8>, bool, Vec<u8>) = match &case.base {
            Base::Xz { cfg, plan } => {
                let mut cfg = cfg.clone();
                // make several blocks likely: block size = dictionary size, small dictionary
                if cfg.block.is_none() && data.len() > 9000 {
                    cfg.block = Some(cfg.opts.dict_size as u64);
                }
                let plan = if cfg.block.is_some() && !plan.is_multi(data.len()) { Plan::Fixed(3000) } else { plan.clone() };
                (encode_xz(&data, &cfg, &plan)?, true, data.clone())
            }
            Base::Lzip { cfg, plan } => {
                let mut cfg = cfg.clone();
                if cfg.member.is_none() && data.len() > 9000 {
                    cfg.member = Some(cfg.opts.dict_size as u64);
                }
                (encode_lzip(&data, &cfg, plan)?, false, data.clone())
            }
            Base::Fixture(i) => {
                let name = EXE_FILES[*i as usize % 8];
                let f = std::fs::read(format!("/verif/corpus/exe/{name}.xz"))
                    .or_else(|_| std::fs::read(format!("/repo/tests/data/{name}.xz")))
                    .map_err(|e| Failure::new("harness:fixture", e.to_string()))?;
                let content = exe(*i as usize).to_vec();
                (f, true, content)
            }
        };
        obs.class(if is_xz { "xz" } else { "lzip" });
        let multi = case.multi;
        let cap = content.len() + (1 << 20);
        let base_hash = fnv64(&base);

        // sanity: the base decodes
        let mt = case.mt_workers as u32;
        obs.class_if(mt > 0, "lzip_mt_reader");
        let clean = if is_xz {
            decode_xz(&base, multi, &case.sizes, cap)?
        } else if mt > 0 {
            decode_lzip_mt(&base, mt, &case.sizes, cap)?
        } else {
            decode_lzip(&base, &case.sizes, cap)?
        };
        match clean {
            Ok(o) if o == content => {}
            Ok(o) => return Err(Failure::new("base-mismatch", first_diff(&o, &content))),
            Err(e) => return Err(Failure::new("base-rejected", e.to_string())),
        }
        if is_xz {
            let w = walk_xz(&base);
            obs.class_if(w.error.is_none() && w.streams.iter().any(|s| s.blocks.len() >= 2), "multi_unit");
        } else {
            obs.class_if(walk_lzip(&base).members.len() >= 2, "multi_unit");
        }

        let mut check = |mutant: &[u8], op: u64, pos: usize, what: &dyn Fn() -> String, obs: &mut Obs| -> Outcome {
            if mutant == base.as_slice() {
                return Ok(());
            }
            obs.evals += 1;
            obs.keys.push(base_hash ^ op.wrapping_mul(0x9E37_79B9_7F4A_7C15) ^ (pos as u64).wrapping_mul(0xD6E8_FEB8_6659_FD93));
            let r = if is_xz {
                decode_xz(mutant, multi, &case.sizes, cap)
            } else if mt > 0 {
                decode_lzip_mt(mutant, mt, &case.sizes, cap)
            } else {
                decode_lzip(mutant, &case.sizes, cap)
            };
            let r = r.map_err(|mut f| {
                f.detail = format!("{}: {}", what(), f.detail);
                f
            })?;
            match r {
                Err(_) => Ok(()),
                Ok(o) if o == content => Ok(()),
                Ok(o) => {
                    // different valid file? ask the reference
                    let reference = if is_xz { xz_decode(mutant, multi, cap) } else { lzip_decode(mutant, true, cap) };
                    if let Ok(r) = &reference {
                        if r.out == o {
                            obs.class("different_valid_file");
                            return Ok(());
                        }
                    }
                    Err(Failure::new(
                        if is_xz { "xz-corruption-accepted" } else { "lzip-corruption-accepted" },
                        format!(
                            "{}: reader reports success with {} bytes ({}); reference: {}",
                            what(),
                            o.len(),
                            first_diff(&o, &content),
                            match reference {
                                Ok(r) => format!("ok with {} bytes", r.out.len()),
                                Err(e) => e,
                            }
                        ),
                    ))
                }
            }
        };

        obs.nontrivial = true;
        match &case.mutation {
            Mutation::BitFlips { seed } => {
                obs.class("bitflips");
                let mut m = base.clone();
                if base.len() <= 600 {
                    obs.class("exhaustive_flips");
                    for i in 0..base.len() {
                        for b in 0..8 {
                            m[i] ^= 1 << b;
                            check(&m, 1, i * 8 + b, &|| format!("bit {b} of byte {i}/{} flipped", base.len()), obs)?;
                            m[i] ^= 1 << b;
                        }
                    }
                } else {
                    let mut r = Prng::new(*seed);
                    // heads and tails are dense in structure: always include them
                    let mut pos: Vec<usize> = (0..64.min(base.len())).chain(base.len().saturating_sub(64)..base.len()).collect();
                    for _ in 0..250 {
                        pos.push(r.below(base.len() as u64) as usize);
                    }
                    for i in pos {
                        for b in 0..8 {
                            m[i] ^= 1 << b;
                            check(&m, 1, i * 8 + b, &|| format!("bit {b} of byte {i}/{} flipped", base.len()), obs)?;
                            m[i] ^= 1 << b;
                        }
                    }
                }
                Ok(())
            }
            Mutation::Bytes { seed, count } => {
                obs.class("bytes");
                let mut r = Prng::new(*seed);
                for k in 0..*count as usize {
                    let mut m = base.clone();
                    let n = 1 + r.below(3) as usize;
                    let mut desc = String::new();
                    for _ in 0..n {
                        let i = r.below(base.len() as u64) as usize;
                        let v = match r.below(4) {
                            0 => 0,
                            1 => 0xFF,
                            2 => m[i].wrapping_add(1),
                            _ => r.next() as u8,
                        };
                        m[i] = v;
                        desc.push_str(&format!("[{i}]={v:#x} "));
                    }
                    check(&m, 2, k, &|| format!("bytes {desc}"), obs)?;
                }
                Ok(())
            }
            Mutation::Regions { seed, count } => {
                obs.class("regions");
                let mut r = Prng::new(*seed);
                for k in 0..*count as usize {
                    let mut m = base.clone();
                    let a = r.below(base.len() as u64) as usize;
                    let len = 1 + r.below(64.min(base.len() as u64 - a as u64).max(1)) as usize;
                    let len = len.min(base.len() - a);
                    let desc;
                    match r.below(5) {
                        0 => {
                            m.drain(a..a + len);
                            desc = format!("delete {a}..{}", a + len);
                        }
                        1 => {
                            let seg = m[a..a + len].to_vec();
                            m.splice(a..a, seg);
                            desc = format!("duplicate {a}..{}", a + len);
                        }
                        2 => {
                            let mut ins = vec![0u8; len];
                            r.fill(&mut ins);
                            m.splice(a..a, ins);
                            desc = format!("insert {len} random bytes at {a}");
                        }
                        3 => {
                            let b = r.below(base.len() as u64) as usize;
                            let l2 = len.min(base.len() - b);
                            let l = len.min(l2);
                            if a + l <= b || b + l <= a {
                                for i in 0..l {
                                    m.swap(a + i, b + i);
                                }
                            }
                            desc = format!("swap {l} bytes at {a} and {b}");
                        }
                        _ => {
                            m.truncate(a);
                            let mut tail = vec![0u8; len];
                            r.fill(&mut tail);
                            m.extend_from_slice(&tail);
                            desc = format!("replace everything from {a} by {len} random bytes");
                        }
                    }
                    check(&m, 3, k, &|| desc.clone(), obs)?;
                }
                Ok(())
            }
            Mutation::Fields { seed } => {
                obs.class("fields");
                let mut r = Prng::new(*seed);
                let vals = |orig: u8, r: &mut Prng| -> Vec<u8> { vec![0, 1, 0x7F, 0x80, 0xFF, orig.wrapping_add(1), orig.wrapping_sub(1), orig ^ 0x40, r.next() as u8] };
                if is_xz {
                    let w = walk_xz(&base);
                    if w.error.is_some() {
                        return Err(Failure::new("harness:walker", format!("{:?}", w.error)));
                    }
                    // (offset, length, crc region to recompute: (start, end, crc_offset))
                    let mut fields: Vec<(usize, usize, Option<(usize, usize, usize)>, &'static str)> = Vec::new();
                    for s in &w.streams {
                        fields.push((s.offset + 6, 2, Some((s.offset + 6, s.offset + 8, s.offset + 8)), "stream flags"));
                        fields.push((s.offset + 8, 4, None, "stream header crc"));
                        for b in &s.blocks {
                            let h = b.offset;
                            let hs = b.header_size;
                            fields.push((h, 1, Some((h, h + hs - 4, h + hs - 4)), "block header size"));
                            fields.push((h + 1, hs - 5, Some((h, h + hs - 4, h + hs - 4)), "block header body"));
                            fields.push((h + hs - 4, 4, None, "block header crc"));
                            fields.push((b.data_offset, 6.min(b.check_offset - b.data_offset), None, "first lzma2 chunk header"));
                            let plen = b.check_offset - b.data_offset;
                            if plen > 8 {
                                fields.push((b.data_offset + 6, plen - 6, None, "payload"));
                            }
                            if b.check_len > 0 {
                                fields.push((b.check_offset, b.check_len, None, "block check"));
                            }
                        }
                        let il = s.index_len;
                        fields.push((s.index_offset, il - 4, Some((s.index_offset, s.index_offset + il - 4, s.index_offset + il - 4)), "index body"));
                        fields.push((s.index_offset + il - 4, 4, None, "index crc"));
                        let f = s.footer_offset;
                        fields.push((f, 4, None, "footer crc"));
                        fields.push((f + 4, 6, Some((f + 4, f + 10, f)), "footer backward size + flags"));
                        fields.push((f + 10, 2, None, "footer magic"));
                    }
                    let mut k = 0usize;
                    for (off, len, fix, name) in fields {
                        if len == 0 {
                            continue;
                        }
                        // every byte of small fields, sampled bytes of large ones
                        let positions: Vec<usize> = if len <= 12 { (0..len).collect() } else { (0..12).map(|_| r.below(len as u64) as usize).collect() };
                        for p in positions {
                            let i = off + p;
                            for v in vals(base[i], &mut r) {
                                if v == base[i] {
                                    continue;
                                }
                                let mut m = base.clone();
                                m[i] = v;
                                k += 1;
                                check(&m, 4, k, &|| format!("{name}: byte {i} = {v:#x} (was {:#x}), no fix-up", base[i]), obs)?;
                                if let Some((a, b, c)) = fix {
                                    let crc = crc32(&m[a..b]);
                                    m[c..c + 4].copy_from_slice(&crc.to_le_bytes());
                                    obs.class("fixup");
                                    k += 1;
                                    check(&m, 5, k, &|| format!("{name}: byte {i} = {v:#x} (was {:#x}), CRC32 recomputed", base[i]), obs)?;
                                }
                            }
                        }
                    }
                    // block-level edits: remove / duplicate / swap whole blocks (header, data,
                    // padding, check), with the index left alone or rewritten to match
                    for s in &w.streams {
                        let nb = s.blocks.len();
                        let span = |i: usize| -> (usize, usize) {
                            let b = &s.blocks[i];
                            (b.offset, b.check_offset + b.check_len)
                        };
                        let rebuild_index = |recs: &[(u64, u64)]| -> Vec<u8> {
                            let mut idx = vec![0u8];
                            vli_encode(recs.len() as u64, &mut idx);
                            for (a, b) in recs {
                                vli_encode(*a, &mut idx);
                                vli_encode(*b, &mut idx);
                            }
                            while idx.len() % 4 != 0 {
                                idx.push(0);
                            }
                            let c = crc32(&idx);
                            idx.extend_from_slice(&c.to_le_bytes());
                            idx
                        };
                        let recs: Vec<(u64, u64)> = s.blocks.iter().map(|b| (b.unpadded_size, b.uncompressed_size)).collect();
                        for i in 0..nb.min(4) {
                            let (a, e) = span(i);
                            if nb >= 2 {
                                let mut m = base.clone();
                                m.drain(a..e);
                                k += 1;
                                check(&m, 8, k, &|| format!("block {i} of {nb} removed, index untouched"), obs)?;
                            }
                            let mut m = base.clone();
                            let seg = base[a..e].to_vec();
                            m.splice(e..e, seg);
                            k += 1;
                            check(&m, 8, k, &|| format!("block {i} of {nb} duplicated, index untouched"), obs)?;
                            if i + 1 < nb {
                                let (a2, e2) = span(i + 1);
                                let mut m = Vec::new();
                                m.extend_from_slice(&base[..a]);
                                m.extend_from_slice(&base[a2..e2]);
                                m.extend_from_slice(&base[a..e]);
                                m.extend_from_slice(&base[e2..]);
                                k += 1;
                                check(&m, 8, k, &|| format!("blocks {i} and {} swapped", i + 1), obs)?;
                            }
                            // index edits with a consistent CRC and footer: one record too many /
                            // one too few / sizes of a record changed
                            for variant in 0..3 {
                                let mut r2 = recs.clone();
                                match variant {
                                    0 => r2.push(recs[i]),
                                    1 => {
                                        r2.remove(i);
                                    }
                                    _ => r2[i].1 += 1,
                                }
                                let idx = rebuild_index(&r2);
                                let mut m = Vec::new();
                                m.extend_from_slice(&base[..s.index_offset]);
                                m.extend_from_slice(&idx);
                                let mut foot = Vec::new();
                                foot.extend_from_slice(&((idx.len() / 4 - 1) as u32).to_le_bytes());
                                foot.extend_from_slice(&[0, s.check_id]);
                                let c = crc32(&foot);
                                m.extend_from_slice(&c.to_le_bytes());
                                m.extend_from_slice(&foot);
                                m.extend_from_slice(b"YZ");
                                m.extend_from_slice(&base[s.end..]);
                                obs.class("fixup");
                                k += 1;
                                check(&m, 9, k, &|| format!("index rewritten consistently: variant {variant} at record {i} of {nb}"), obs)?;
                            }
                        }
                    }
                } else {
                    let w = walk_lzip(&base);
                    if w.error.is_some() {
                        return Err(Failure::new("harness:walker", format!("{:?}", w.error)));
                    }
                    let mut k = 0usize;
                    // member-level edits: all but the first n bytes of a member removed, the first n bytes of the
                    // file removed, a member duplicated / removed / two members swapped
                    let nm = w.members.len();
                    for (i, mem) in w.members.iter().enumerate().take(4) {
                        for n in [0usize, 1, 5, 6, 7, 19, 20, 21, 26, 40] {
                            // an empty file is the recorded finding KF-LZIP-EMPTY-SOURCE (C05): not generated here
                            if n < mem.size && !(n == 0 && nm == 1) {
                                let mut m = base.clone();
                                m.drain(mem.offset + n..mem.offset + mem.size);
                                k += 1;
                                check(&m, 10, k, &|| format!("member {i} of {nm} cut down to its first {n} bytes"), obs)?;
                            }
                        }
                        if nm >= 2 {
                            let mut m = base.clone();
                            m.drain(mem.offset..mem.offset + mem.size);
                            k += 1;
                            check(&m, 10, k, &|| format!("member {i} of {nm} removed"), obs)?;
                        }
                        if i + 1 < nm {
                            let nx = &w.members[i + 1];
                            let mut m = Vec::new();
                            m.extend_from_slice(&base[..mem.offset]);
                            m.extend_from_slice(&base[nx.offset..nx.offset + nx.size]);
                            m.extend_from_slice(&base[mem.offset..mem.offset + mem.size]);
                            m.extend_from_slice(&base[nx.offset + nx.size..]);
                            k += 1;
                            check(&m, 10, k, &|| format!("members {i} and {} swapped", i + 1), obs)?;
                        }
                    }
                    for n in 1..=26usize {
                        if n < base.len() {
                            k += 1;
                            check(&base[n..], 10, k, &|| format!("first {n} bytes of the file removed"), obs)?;
                        }
                    }
                    for mem in &w.members {
                        let mut fields: Vec<(usize, usize, &'static str)> = vec![
                            (mem.offset, 4, "magic"),
                            (mem.offset + 4, 1, "version"),
                            (mem.offset + 5, 1, "dictionary byte"),
                            (mem.offset + 6, 5, "range coder init"),
                            (mem.offset + mem.size - 20, 4, "trailer crc"),
                            (mem.offset + mem.size - 16, 8, "trailer data size"),
                            (mem.offset + mem.size - 8, 8, "trailer member size"),
                        ];
                        if mem.size > 40 {
                            fields.push((mem.offset + 11, mem.size - 31, "payload"));
                        }
                        for (off, len, name) in fields {
                            let positions: Vec<usize> = if len <= 12 { (0..len).collect() } else { (0..12).map(|_| r.below(len as u64) as usize).collect() };
                            for p in positions {
                                let i = off + p;
                                for v in vals(base[i], &mut r) {
                                    if v == base[i] {
                                        continue;
                                    }
                                    let mut m = base.clone();
                                    m[i] = v;
                                    k += 1;
                                    check(&m, 6, k, &|| format!("member at {}: {name}: byte {i} = {v:#x} (was {:#x})", mem.offset, base[i]), obs)?;
                                }
                            }
                        }
                    }
                    // member-level edits: drop / duplicate / swap members, consistent data_size edits
                    if w.members.len() >= 2 {
                        let a = &w.members[0];
                        let b = &w.members[1];
                        let mut m = base.clone();
                        m.drain(a.offset..a.offset + a.size);
                        check(&m, 7, 0, &|| "first member removed".to_string(), obs)?;
                        let mut m = Vec::new();
                        m.extend_from_slice(&base[b.offset..b.offset + b.size]);
                        m.extend_from_slice(&base[a.offset..a.offset + a.size]);
                        m.extend_from_slice(&base[b.offset + b.size..]);
                        check(&m, 7, 1, &|| "first two members swapped".to_string(), obs)?;
                    }
                }
                Ok(())
            }
            Mutation::Garbage { seed, len, flavour } => {
                obs.class("garbage");
                let mut r = Prng::new(*seed);
                let mut g = vec![0u8; *len as usize];
                r.fill(&mut g);
                match flavour % 8 {
                    0 => {}
                    1 => g.iter_mut().for_each(|b| *b = b"the quick brown fox "[(*b % 20) as usize]),
                    2 => {
                        // the other format's magic
                        let mg: &[u8] = if is_xz { b"LZIP\x01\x0c" } else { b"\xFD7zXZ\0" };
                        let n = mg.len().min(g.len());
                        g[..n].copy_from_slice(&mg[..n]);
                    }
                    3 => {
                        // a prefix of the right magic followed by garbage
                        let mg: &[u8] = if is_xz { b"\xFD7zXZ\0" } else { b"LZIP" };
                        let n = (1 + r.below(mg.len() as u64 - 1) as usize).min(g.len());
                        g[..n].copy_from_slice(&mg[..n]);
                        if g.len() > n && g[n] == mg[n] {
                            g[n] ^= 0x55;
                        }
                    }
                    4 => g.iter_mut().for_each(|b| *b = 0),
                    5 => {
                        // right magic, damaged rest of the header
                        let mg: &[u8] = if is_xz { b"\xFD7zXZ\0" } else { b"LZIP" };
                        let n = mg.len().min(g.len());
                        g[..n].copy_from_slice(&mg[..n]);
                        if !is_xz && g.len() > 5 {
                            // bad version or bad dictionary byte
                            if r.below(2) == 0 {
                                g[4] = 1;
                                g[5] = [0u8, 11, 30, 0xFF][r.below(4) as usize];
                            } else if g[4] == 1 {
                                g[4] = 2;
                            }
                        }
                    }
                    6 => {
                        // a valid base followed by a damaged-but-recognisable second header
                        let mut m = base.clone();
                        if is_xz {
                            m.extend_from_slice(b"\xFD7zXZ\0");
                        } else {
                            m.extend_from_slice(b"LZIP");
                            m.push(if r.below(2) == 0 { 1 } else { 0 });
                            m.push([0u8, 11, 30][r.below(3) as usize]);
                        }
                        m.extend_from_slice(&g);
                        g = m;
                    }
                    _ => g.iter_mut().for_each(|b| *b = 0xFF),
                }
                obs.evals += 1;
                obs.keys.push(fnv64(&g));
                if g.is_empty() {
                    return Ok(());
                }
                let starts_with_base = g.len() > base.len() && g.starts_with(&base);
                let r = if is_xz { decode_xz(&g, multi, &case.sizes, cap)? } else { decode_lzip(&g, &case.sizes, cap)? };
                match r {
                    Err(_) => Ok(()),
                    Ok(o) => {
                        if starts_with_base && is_xz && !multi && o == content {
                            // single-stream mode stops after the first stream
                            return Ok(());
                        }
                        Err(Failure::new(
                            if is_xz { "xz-garbage-accepted" } else { "lzip-garbage-accepted" },
                            format!("non-format input of {} bytes (flavour {}) decoded successfully to {} bytes", g.len(), flavour % 8, o.len()),
                        ))
                    }
                }
            }
        }
    }
}
