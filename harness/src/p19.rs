//! C19 — a writer that reports success has produced a decodable stream (option boundary grid).

use std::io::Cursor;
use std::num::NonZeroU64;

use lzma_rust2::verif_api::FilterConfig;
use lzma_rust2::{
    LZIPOptions, LZIPReader, LZIPWriter, LZIPWriterMT, LZMA2Options, LZMA2Reader, LZMA2Writer, LZMA2WriterMT, LZMAReader,
    LZMAWriter, XZOptions, XZReader, XZWriter,
};
use proptest::prelude::*;
use serde::{Deserialize, Serialize};

use crate::codec::*;
use crate::cont::FilterSpec;
use crate::engine::*;
use crate::gen::*;

#[derive(Clone, Debug, Serialize, Deserialize)]
pub enum Writer {
    LzmaHeader { sized: bool },
    LzmaRaw { end_marker: bool },
    Lzma2 { chunk: Option<u64> },
    Xz { check: u8, block: Option<u64>, filters: Vec<FilterSpec> },
    Lzip { member: Option<u64> },
    Lzma2Mt { chunk: Option<u64>, workers: u32 },
    LzipMt { member: Option<u64>, workers: u32 },
}

#[derive(Clone, Debug, Serialize, Deserialize)]
pub struct Case {
    pub data: Data,
    pub opts: Opts,
    /// None, Some(empty), Some(short), Some(long)
    pub preset: Option<Data>,
    pub writer: Writer,
    pub plan: Plan,
}

pub struct C19;

const DICTS: [u32; 10] = [0, 1, 100, 4095, 4096, 4097, 65_536, 1 << 20, 1 << 24, 1 << 26];
const NICE: [u32; 9] = [0, 1, 2, 7, 8, 9, 273, 274, 1000];
const DEPTH: [i32; 7] = [i32::MIN, -1, 0, 1, 48, 1000, i32::MAX];

fn base_opts() -> Opts {
    Opts {
        dict_size: 1 << 16,
        lc: 3,
        lp: 0,
        pb: 2,
        mode: 0,
        nice_len: 32,
        mf: 0,
        depth: 0,
    }
}

/// deviates `k` fields of a valid option vector to grid values
fn wild_opts() -> BoxedStrategy<(Opts, u8)> {
    let field = (0u8..7, any::<u32>());
    (proptest::collection::vec(field, 0..3), 0u8..2, 0u8..2)
        .prop_map(|(devs, mode, mf)| {
            let mut o = base_opts();
            o.mode = mode;
            o.mf = mf;
            let mut out_of_range = 0u8;
            for (f, v) in devs {
                match f {
                    0 => {
                        // grid values, or an odd in-range size no container header can represent
                        o.dict_size = if (v >> 16) % 3 == 0 { 4097 + (v >> 4) % 16_000 } else { DICTS[v as usize % DICTS.len()] };
                        if o.dict_size < 4096 {
                            out_of_range += 1;
                        }
                    }
                    1 => {
                        o.lc = v % 10;
                        if o.lc > 8 {
                            out_of_range += 1;
                        }
                    }
                    2 => {
                        o.lp = v % 6;
                        if o.lp > 4 {
                            out_of_range += 1;
                        }
                    }
                    3 => {
                        o.pb = v % 6;
                        if o.pb > 4 {
                            out_of_range += 1;
                        }
                    }
                    4 => {
                        o.nice_len = NICE[v as usize % NICE.len()];
                        if !(8..=273).contains(&o.nice_len) {
                            out_of_range += 1;
                        }
                    }
                    5 => {
                        o.depth = DEPTH[v as usize % DEPTH.len()];
                        if o.depth < 0 {
                            out_of_range += 1;
                        }
                    }
                    _ => {
                        // lc + lp around 4
                        o.lc = 1 + v % 4;
                        o.lp = (4 - o.lc) + (v >> 8) % 2;
                    }
                }
            }
            (o, out_of_range)
        })
        .boxed()
}

fn wild_filter() -> BoxedStrategy<FilterSpec> {
    prop_oneof![
        3 => prop_oneof![Just(0u32), Just(1u32), Just(256u32), Just(257u32), Just(1000u32), 1u32..=256].prop_map(FilterSpec::Delta),
        3 => (0u8..8, prop_oneof![Just(0u32), Just(1u32), Just(3u32), Just(6u32), any::<u32>()]).prop_map(|(a, s)| FilterSpec::Bcj(a, s)),
    ]
    .boxed()
}

fn size_opt() -> BoxedStrategy<Option<u64>> {
    prop_oneof![3 => Just(None), 1 => Just(Some(1u64)), 1 => Just(Some(4095u64)), 1 => Just(Some(65_535u64)), 1 => Just(Some(u64::MAX)), 1 => (1u64..200_000).prop_map(Some)].boxed()
}

fn writer_strategy() -> BoxedStrategy<Writer> {
    prop_oneof![
        2 => any::<bool>().prop_map(|sized| Writer::LzmaHeader { sized }),
        2 => any::<bool>().prop_map(|end_marker| Writer::LzmaRaw { end_marker }),
        3 => size_opt().prop_map(|chunk| Writer::Lzma2 { chunk }),
        4 => (0u8..4, size_opt(), proptest::collection::vec(wild_filter(), 0..=5)).prop_map(|(check, block, filters)| Writer::Xz { check, block, filters }),
        2 => size_opt().prop_map(|member| Writer::Lzip { member }),
        1 => (size_opt(), 0u32..4).prop_map(|(chunk, workers)| Writer::Lzma2Mt { chunk, workers }),
        1 => (size_opt(), 0u32..4).prop_map(|(member, workers)| Writer::LzipMt { member, workers }),
    ]
    .boxed()
}

fn filter_in_range(f: &FilterSpec) -> bool {
    match f {
        FilterSpec::Delta(d) => (1..=256).contains(d),
        FilterSpec::Bcj(a, s) => s % crate::refimpl::BCJ_ALIGN[*a as usize % 8] == 0,
    }
}

impl Property for C19 {
    type Case = Case;
    const ID: &'static str = "C19";

    fn families(_tier: Tier) -> u32 {
        3
    }

    fn strategy(tier: Tier, family: u32) -> BoxedStrategy<Case> {
        if family == 2 {
            // in-range but unusual: an odd dictionary size and a repetition just inside it, so
            // that a header which rounds the dictionary the wrong way makes the stream undecodable
            return (4097u32..70_000, prop_oneof![3 => 0u32..4, 2 => 0u32..300], any::<u64>(), 0u8..2, 0u8..2, writer_strategy())
                .prop_map(|(dict, k, seed, mode, mf, writer)| {
                    let mut opts = base_opts();
                    opts.dict_size = dict;
                    opts.mode = mode;
                    opts.mf = mf;
                    // repetition at distance dict + 1 - k: one byte outside the dictionary (must not be used), exactly
                    // at its edge, and just inside
                    let d = dict + 1 - k.min(dict);
                    let writer = match writer {
                        Writer::Xz { check, block, .. } => Writer::Xz { check, block, filters: vec![] },
                        w => w,
                    };
                    Case {
                        data: Data {
                            segs: vec![Seg::Rand { len: d, seed }, Seg::CopyBack { len: 300, dist: d }, Seg::Text { len: 50, seed }],
                        },
                        opts,
                        preset: None,
                        writer,
                        plan: Plan::All,
                    }
                })
                .boxed();
        }
        let data = if family == 0 {
            prop_oneof![1 => Just(Data::default()), 5 => data_strategy(2, 600)].boxed()
        } else {
            data_strategy(4, tier.pick(40_000, 120_000))
        };
        let preset = prop_oneof![
            5 => Just(None),
            2 => Just(Some(Data::default())),
            1 => Just(Some(Data { segs: vec![Seg::Const { len: 1, byte: 7 }] })),
            1 => data_strategy(2, 100_000).prop_map(Some),
        ];
        (data, wild_opts(), preset, writer_strategy(), plan_strategy())
            .prop_map(|(data, (opts, _), preset, writer, plan)| {
                // BCJ + split writes is the recorded multi-write finding
                let plan = match &writer {
                    Writer::Xz { filters, .. } if filters.iter().any(|f| f.is_bcj()) => Plan::All,
                    _ => plan,
                };
                Case {
                    data,
                    opts,
                    preset,
                    writer,
                    plan,
                }
            })
            .boxed()
    }

    fn budget(tier: Tier) -> u64 {
        tier.pick(16_000, 150_000)
    }

    fn rule() -> &'static str {
        "option vector = a valid base with 0-2 fields moved to boundary-grid values, also outside the documented ranges: dict_size {0,1,100,4095,4096,4097,64Ki,1Mi,16Mi,64Mi}, lc 0-9, lp 0-5, pb 0-5, lc+lp around 4, nice_len {0,1,2,7,8,9,273,274,1000}, depth {i32::MIN,-1,0,1,48,1000,i32::MAX}, both modes and match finders; preset dictionary none / empty / 1 byte / long; chunk, block and member sizes {1, 4095, 65535, u64::MAX, random}; XZ with 0-5 pre-filters incl. delta distances {0,1,256,257,1000} and unaligned BCJ start offsets; every writer (LZMAWriter with and without header / end marker / size, LZMA2Writer, XZWriter, LZIPWriter, MT writers on real threads with 0-3 requested workers) x tiny and ~100 KB inputs. Oracle: constructing + writing + finishing returns Err somewhere, or the stream decodes with the corresponding reader (configured from the same option struct) to the written bytes; a panic is a violation. Non-trivial = at least one field outside its documented range. Distinct = hash of the case recipe."
    }

    fn floors(_tier: Tier) -> Vec<(&'static str, f64)> {
        vec![("out_of_range", 30.0), ("rejected", 15.0), ("accepted_out_of_range", 3.0), ("xz", 15.0), ("lzma2", 10.0)]
    }

    fn assumptions() -> Vec<&'static str> {
        vec!["dictionary sizes above 64 MiB are not instantiated (memory of 16 parallel shards); the estimator side of large dictionaries is C17's"]
    }

    fn known(case: &Case, f: &Failure) -> Option<&'static str> {
        if let Writer::Xz { filters, .. } = &case.writer {
            if crate::cont::bcj_multiwrite_region(filters, case.plan.is_multi(case.data.total_len())) && f.sig.starts_with("undecodable") {
                return Some("KF-BCJW-MULTIWRITE");
            }
        }
        None
    }

    fn run(case: &Case, obs: &mut Obs) -> Outcome {
        let data = case.data.expand();
        let o = &case.opts;
        let preset = case.preset.as_ref().map(|p| p.expand());
        let mut oor = o.dict_size < 4096 || o.lc > 8 || o.lp > 4 || o.pb > 4 || !(8..=273).contains(&o.nice_len) || o.depth < 0;
        oor |= matches!(&preset, Some(p) if p.is_empty());
        let mut lz = o.to_lzma();
        lz.preset_dict = preset.clone();
        let cap = data.len() + (1 << 20);
        let plan = case.plan.clone();
        let d2 = data.clone();
        let name;
        // returns Ok(stream) or Err(text of the first error)
        let written: Result<Vec<u8>, String> = match &case.writer {
            Writer::LzmaHeader { sized } => {
                name = "lzma1";
                let sized = *sized;
                no_panic("write", move || -> Result<Vec<u8>, String> {
                    let mut w = LZMAWriter::new(Vec::new(), &lz, true, !sized, if sized { Some(d2.len() as u64) } else { None }).map_err(|e| e.to_string())?;
                    write_plan(&mut w, &d2, &plan).map_err(|e| e.to_string())?;
                    w.finish().map_err(|e| e.to_string())
                })?
            }
            Writer::LzmaRaw { end_marker } => {
                name = "lzma1";
                let em = *end_marker;
                no_panic("write", move || -> Result<Vec<u8>, String> {
                    let mut w = LZMAWriter::new(Vec::new(), &lz, false, em, None).map_err(|e| e.to_string())?;
                    write_plan(&mut w, &d2, &plan).map_err(|e| e.to_string())?;
                    w.finish().map_err(|e| e.to_string())
                })?
            }
            Writer::Lzma2 { chunk } => {
                name = "lzma2";
                oor |= o.lc + o.lp > 4;
                let chunk = *chunk;
                no_panic("write", move || -> Result<Vec<u8>, String> {
                    let mut l2 = LZMA2Options {
                        lzma_options: lz,
                        chunk_size: None,
                    };
                    l2.set_chunk_size(chunk.and_then(NonZeroU64::new));
                    let mut w = LZMA2Writer::new(Vec::new(), l2);
                    write_plan(&mut w, &d2, &plan).map_err(|e| e.to_string())?;
                    w.finish().map_err(|e| e.to_string())
                })?
            }
            Writer::Xz { check, block, filters } => {
                name = "xz";
                oor |= o.lc + o.lp > 4 || filters.len() > 3 || filters.iter().any(|f| !filter_in_range(f));
                let (check, block) = (*check, *block);
                let fl: Vec<FilterConfig> = filters.iter().map(|f| f.to_ours()).collect();
                no_panic("write", move || -> Result<Vec<u8>, String> {
                    let mut xo = XZOptions::with_preset(6);
                    xo.lzma_options = lz;
                    xo.set_check_sum_type(check_type(check));
                    xo.set_block_size(block.and_then(NonZeroU64::new));
                    xo.filters = fl;
                    let mut w = XZWriter::new(Vec::new(), xo).map_err(|e| e.to_string())?;
                    write_plan(&mut w, &d2, &plan).map_err(|e| e.to_string())?;
                    w.finish().map_err(|e| e.to_string())
                })?
            }
            Writer::Lzip { member } => {
                name = "lzip";
                let member = *member;
                no_panic("write", move || -> Result<Vec<u8>, String> {
                    let mut lo = LZIPOptions::with_preset(6);
                    lo.lzma_options = lz;
                    lo.set_member_size(member.and_then(NonZeroU64::new));
                    let mut w = LZIPWriter::new(Vec::new(), lo);
                    write_plan(&mut w, &d2, &plan).map_err(|e| e.to_string())?;
                    w.finish().map_err(|e| e.to_string())
                })?
            }
            Writer::Lzma2Mt { chunk, workers } => {
                name = "lzma2";
                oor |= o.lc + o.lp > 4 || chunk.is_none();
                let (chunk, workers) = (*chunk, *workers);
                no_panic("write", move || -> Result<Vec<u8>, String> {
                    let mut l2 = LZMA2Options {
                        lzma_options: lz,
                        chunk_size: None,
                    };
                    l2.set_chunk_size(chunk.and_then(NonZeroU64::new));
                    let mut w = LZMA2WriterMT::new(Vec::new(), l2, workers).map_err(|e| e.to_string())?;
                    write_plan(&mut w, &d2, &plan).map_err(|e| e.to_string())?;
                    w.finish().map_err(|e| e.to_string())
                })?
            }
            Writer::LzipMt { member, workers } => {
                name = "lzip";
                oor |= member.is_none();
                let (member, workers) = (*member, *workers);
                no_panic("write", move || -> Result<Vec<u8>, String> {
                    let mut lo = LZIPOptions::with_preset(6);
                    lo.lzma_options = lz;
                    lo.set_member_size(member.and_then(NonZeroU64::new));
                    let mut w = LZIPWriterMT::new(Vec::new(), lo, workers).map_err(|e| e.to_string())?;
                    write_plan(&mut w, &d2, &plan).map_err(|e| e.to_string())?;
                    w.finish().map_err(|e| e.to_string())
                })?
            }
        };
        obs.class(name);
        obs.class_if(oor, "out_of_range");
        obs.nontrivial = oor;
        let stream = match written {
            Err(_) => {
                obs.class("rejected");
                return Ok(());
            }
            Ok(s) => s,
        };
        obs.class_if(oor, "accepted_out_of_range");
        // decode with parameters taken from the same option struct, the way a container stores them
        let opts = case.opts.clone();
        let p2 = preset.clone();
        let n = data.len();
        let writer = case.writer.clone();
        let decoded = no_panic("read", move || -> std::io::Result<Vec<u8>> {
            let p = p2.as_deref();
            match writer {
                Writer::LzmaHeader { .. } => {
                    let mut r = LZMAReader::new_mem_limit(stream.as_slice(), u32::MAX, p)?;
                    read_all(&mut r, &[1 << 16], cap)
                }
                Writer::LzmaRaw { end_marker } => {
                    let mut r = LZMAReader::new(stream.as_slice(), if end_marker { u64::MAX } else { n as u64 }, opts.lc, opts.lp, opts.pb, opts.dict_size, p)?;
                    read_all(&mut r, &[1 << 16], cap)
                }
                Writer::Lzma2 { .. } => {
                    let mut r = LZMA2Reader::new(stream.as_slice(), opts.dict_size.max(4096), p);
                    read_all(&mut r, &[1 << 16], cap)
                }
                Writer::Lzma2Mt { .. } => {
                    // the MT writer drops the preset dictionary by design (independent units)
                    let mut r = LZMA2Reader::new(stream.as_slice(), opts.dict_size.max(4096), None);
                    read_all(&mut r, &[1 << 16], cap)
                }
                Writer::Xz { .. } => {
                    let mut r = XZReader::new(Cursor::new(stream), false);
                    read_all(&mut r, &[1 << 16], cap)
                }
                Writer::Lzip { .. } | Writer::LzipMt { .. } => {
                    let mut r = LZIPReader::new(stream.as_slice())?;
                    read_all(&mut r, &[1 << 16], cap)
                }
            }
        })?;
        match decoded {
            Ok(out) if out == data => Ok(()),
            Ok(out) => Err(Failure::new(
                format!("undecodable-{name}-mismatch"),
                format!("writer reported success with options {:?} preset {:?}, the reader returns other bytes: {}", case.opts, preset.as_ref().map(|p| p.len()), first_diff(&out, &data)),
            )),
            Err(e) => Err(Failure::new(
                format!("undecodable-{name}"),
                format!("writer reported success with options {:?} preset {:?} writer {:?}, the reader fails: {e}", case.opts, preset.as_ref().map(|p| p.len()), case.writer),
            )),
        }
    }
}
