//! Generators: data recipes and option vectors. Everything a case needs is stored in the
//! (serialisable) recipe, the expansion to bytes is a pure function of it.

use proptest::prelude::*;
use serde::{Deserialize, Serialize};

#[derive(Clone, Copy)]
pub struct Prng(pub u64);

impl Prng {
    pub fn new(seed: u64) -> Self {
        Prng(seed ^ 0x9E37_79B9_7F4A_7C15)
    }
    #[inline]
    pub fn next(&mut self) -> u64 {
        // splitmix64
        self.0 = self.0.wrapping_add(0x9E37_79B9_7F4A_7C15);
        let mut z = self.0;
        z = (z ^ (z >> 30)).wrapping_mul(0xBF58_476D_1CE4_E5B9);
        z = (z ^ (z >> 27)).wrapping_mul(0x94D0_49BB_1331_11EB);
        z ^ (z >> 31)
    }
    pub fn below(&mut self, n: u64) -> u64 {
        if n == 0 {
            0
        } else {
            self.next() % n
        }
    }
    pub fn fill(&mut self, out: &mut [u8]) {
        for chunk in out.chunks_mut(8) {
            let v = self.next().to_le_bytes();
            chunk.copy_from_slice(&v[..chunk.len()]);
        }
    }
}

pub fn fnv64(data: &[u8]) -> u64 {
    let mut h: u64 = 0xcbf2_9ce4_8422_2325;
    for &b in data {
        h ^= b as u64;
        h = h.wrapping_mul(0x0000_0100_0000_01B3);
    }
    h
}

pub const EXE_FILES: [&str; 8] = [
    "wget-x86",
    "wget-arm",
    "wget-arm-thumb",
    "wget-arm64",
    "wget-ppc",
    "wget-sparc",
    "wget-ia64",
    "wget-riscv",
];

pub fn exe(idx: usize) -> &'static [u8] {
    use std::sync::OnceLock;
    static FILES: OnceLock<Vec<Vec<u8>>> = OnceLock::new();
    let files = FILES.get_or_init(|| {
        EXE_FILES
            .iter()
            .map(|n| {
                std::fs::read(format!("/verif/corpus/exe/{n}"))
                    .or_else(|_| std::fs::read(format!("/repo/tests/data/{n}")))
                    .unwrap_or_default()
            })
            .collect()
    });
    &files[idx % files.len()]
}

#[derive(Clone, Debug, Serialize, Deserialize, PartialEq)]
pub enum Seg {
    /// incompressible
    Rand { len: u32, seed: u64 },
    Const { len: u32, byte: u8 },
    /// a random block of `period` bytes repeated
    Periodic { len: u32, period: u16, seed: u64 },
    /// copy `len` bytes from `dist` bytes back in the output produced so far (clamped)
    CopyBack { len: u32, dist: u32 },
    /// low-entropy text-like bytes (small alphabet, word structure)
    Text { len: u32, seed: u64 },
    /// synthetic machine code dense in branch opcodes of architecture `arch` (0..8)
    Opcode { len: u32, arch: u8, seed: u64 },
    /// slice of one of the real executables
    Exe { len: u32, file: u8, off: u32 },
    /// random data with a sprinkling of short repeats (mixed compressibility)
    Mixed { len: u32, seed: u64 },
    /// random bytes over an alphabet of `alphabet` symbols: a short match at every position, none of them
    /// long (keeps the optimal parser inside one long pricing pass)
    Tiles { len: u32, alphabet: u8, seed: u64 },
    /// E8 / E9 / 00 / FF each with probability 1/8, random bytes otherwise: clusters of x86 branch opcodes and
    /// "convertible" high bytes everywhere, so that every buffer boundary of the x86 filter falls inside one
    X86Soup { len: u32, seed: u64 },
}

impl Seg {
    pub fn len(&self) -> u32 {
        match self {
            Seg::Rand { len, .. }
            | Seg::Const { len, .. }
            | Seg::Periodic { len, .. }
            | Seg::CopyBack { len, .. }
            | Seg::Text { len, .. }
            | Seg::Opcode { len, .. }
            | Seg::Exe { len, .. }
            | Seg::Mixed { len, .. }
            | Seg::Tiles { len, .. }
            | Seg::X86Soup { len, .. } => *len,
        }
    }
}

#[derive(Clone, Debug, Serialize, Deserialize, PartialEq, Default)]
pub struct Data {
    pub segs: Vec<Seg>,
}

impl Data {
    pub fn total_len(&self) -> usize {
        self.segs.iter().map(|s| s.len() as usize).sum()
    }

    pub fn expand(&self) -> Vec<u8> {
        let mut out: Vec<u8> = Vec::with_capacity(self.total_len());
        for seg in &self.segs {
            match *seg {
                Seg::Rand { len, seed } => {
                    let start = out.len();
                    out.resize(start + len as usize, 0);
                    Prng::new(seed).fill(&mut out[start..]);
                }
                Seg::Const { len, byte } => {
                    let n = out.len() + len as usize;
                    out.resize(n, byte);
                }
                Seg::Periodic { len, period, seed } => {
                    let p = (period as usize).max(1);
                    let mut block = vec![0u8; p];
                    Prng::new(seed).fill(&mut block);
                    for i in 0..len as usize {
                        out.push(block[i % p]);
                    }
                }
                Seg::CopyBack { len, dist } => {
                    if out.is_empty() {
                        let n = len as usize;
                        out.resize(n, 0x41);
                    } else {
                        let d = (dist as usize).clamp(1, out.len());
                        for _ in 0..len {
                            let b = out[out.len() - d];
                            out.push(b);
                        }
                    }
                }
                Seg::Text { len, seed } => {
                    let mut r = Prng::new(seed);
                    const WORDS: [&[u8]; 16] = [
                        b"the ", b"of ", b"and ", b"compress", b"ion ", b"data ", b"lzma ",
                        b"stream ", b"block ", b"\n", b"a ", b"in ", b"is ", b"0123", b"xz ",
                        b"dictionary ",
                    ];
                    let target = out.len() + len as usize;
                    while out.len() < target {
                        let w = WORDS[r.below(16) as usize];
                        let room = target - out.len();
                        out.extend_from_slice(&w[..w.len().min(room)]);
                    }
                }
                Seg::Opcode { len, arch, seed } => {
                    gen_opcodes(&mut out, len as usize, arch, seed);
                }
                Seg::Exe { len, file, off } => {
                    let f = exe(file as usize);
                    if f.is_empty() {
                        let start = out.len();
                        out.resize(start + len as usize, 0);
                        Prng::new(off as u64).fill(&mut out[start..]);
                    } else {
                        let o = off as usize % f.len();
                        for i in 0..len as usize {
                            out.push(f[(o + i) % f.len()]);
                        }
                    }
                }
                Seg::X86Soup { len, seed } => {
                    let mut r = Prng::new(seed);
                    for _ in 0..len {
                        let x = r.next();
                        out.push(match x & 7 {
                            0 => 0xE8,
                            1 => 0xE9,
                            2 => 0x00,
                            3 => 0xFF,
                            _ => (x >> 24) as u8,
                        });
                    }
                }
                Seg::Tiles { len, alphabet, seed } => {
                    let mut r = Prng::new(seed);
                    let a = alphabet.clamp(2, 16) as u64;
                    let base = (seed >> 56) as u8;
                    for _ in 0..len {
                        out.push(base.wrapping_add((r.below(a) as u8).wrapping_mul(17)));
                    }
                }
                Seg::Mixed { len, seed } => {
                    let mut r = Prng::new(seed);
                    let target = out.len() + len as usize;
                    while out.len() < target {
                        let room = target - out.len();
                        if r.below(3) == 0 || out.len() < 4 {
                            let n = (1 + r.below(24) as usize).min(room);
                            for _ in 0..n {
                                out.push(r.next() as u8);
                            }
                        } else {
                            let n = (2 + r.below(40) as usize).min(room);
                            let d = 1 + r.below(out.len().min(70_000) as u64) as usize;
                            for _ in 0..n {
                                let b = out[out.len() - d];
                                out.push(b);
                            }
                        }
                    }
                }
            }
        }
        out
    }
}

/// Synthetic code: random bytes in which branch instructions of the architecture are frequent.
pub fn gen_opcodes(out: &mut Vec<u8>, len: usize, arch: u8, seed: u64) {
    let mut r = Prng::new(seed);
    let target = out.len() + len;
    while out.len() < target {
        let mut ins: Vec<u8> = Vec::with_capacity(16);
        let hi = |r: &mut Prng| -> u8 {
            match r.below(4) {
                0 => 0x00,
                1 => 0xFF,
                _ => r.next() as u8,
            }
        };
        match arch % 8 {
            0 => {
                // x86: E8/E9 rel32 with 00/FF high byte, 0F 8x
                match r.below(5) {
                    0 | 1 => {
                        ins.push(if r.below(2) == 0 { 0xE8 } else { 0xE9 });
                        ins.push(r.next() as u8);
                        ins.push(r.next() as u8);
                        ins.push(r.next() as u8);
                        ins.push(hi(&mut r));
                    }
                    2 => {
                        ins.push(0x0F);
                        ins.push(0x80 | (r.next() as u8 & 0xF));
                        ins.push(r.next() as u8);
                        ins.push(r.next() as u8);
                        ins.push(r.next() as u8);
                        ins.push(hi(&mut r));
                    }
                    3 => {
                        // consecutive E8s (prev_mask logic)
                        for _ in 0..(1 + r.below(4)) {
                            ins.push(0xE8);
                        }
                    }
                    _ => {
                        for _ in 0..(1 + r.below(6)) {
                            ins.push(r.next() as u8);
                        }
                    }
                }
            }
            1 => {
                // ARM: 4-byte LE, BL = xx xx xx EB
                let v = r.next();
                ins.extend_from_slice(&[v as u8, (v >> 8) as u8, (v >> 16) as u8]);
                ins.push(if r.below(2) == 0 { 0xEB } else { (v >> 24) as u8 });
            }
            2 => {
                // ARM Thumb: BL pair: (b1 & 0xF8)==0xF0 and (b3 & 0xF8)==0xF8 (LE halfwords)
                let v = r.next();
                if r.below(2) == 0 {
                    ins.push(v as u8);
                    ins.push(0xF0 | ((v >> 8) as u8 & 7));
                    ins.push((v >> 16) as u8);
                    ins.push(0xF8 | ((v >> 24) as u8 & 7));
                } else {
                    ins.push(v as u8);
                    ins.push((v >> 8) as u8);
                }
            }
            3 => {
                // ARM64: BL 0x94000000 (top 6 bits 100101), ADRP 0x90000000 mask 0x9F000000
                let v = r.next() as u32;
                let w = match r.below(3) {
                    0 => 0x9400_0000 | (v & 0x03FF_FFFF),
                    1 => {
                        let mut w = 0x9000_0000 | (v & 0x60FF_FFFF);
                        if r.below(2) == 0 {
                            // small immediates are the ones that get converted
                            w &= !0x00FF_FFE0 | 0x0000_0FE0;
                        }
                        w
                    }
                    _ => v,
                };
                ins.extend_from_slice(&w.to_le_bytes());
            }
            4 => {
                // PPC: big endian, 0x48000001 with mask 0xFC000003
                let v = r.next() as u32;
                let w = if r.below(2) == 0 { (v & 0x03FF_FFFC) | 0x4800_0001 } else { v };
                ins.extend_from_slice(&w.to_be_bytes());
            }
            5 => {
                // SPARC: call: 0x40 00xxxxxx or 0x7F Cxxxxx
                let v = r.next() as u32;
                let w = match r.below(3) {
                    0 => 0x4000_0000 | (v & 0x003F_FFFF),
                    1 => 0x7FC0_0000 | (v & 0x003F_FFFF),
                    _ => v,
                };
                ins.extend_from_slice(&w.to_be_bytes());
            }
            6 => {
                // IA-64: 16-byte bundles, template in low 5 bits; branch templates 0x10..0x17
                let mut b = [0u8; 16];
                r.fill(&mut b);
                if r.below(3) != 0 {
                    b[0] = (b[0] & 0xE0) | (0x10 + r.below(8) as u8);
                    // opcode 5 in slot bits makes the instruction a br.call candidate; sprinkle
                    if r.below(2) == 0 {
                        for x in b.iter_mut().skip(5) {
                            if r.below(3) == 0 {
                                *x = 0x50 | (*x & 0x0F);
                            }
                        }
                    }
                }
                ins.extend_from_slice(&b);
            }
            _ => {
                // RISC-V: JAL (0x6F, rd=ra/x5 -> 0xEF), AUIPC (0x17) + following JALR/load
                let v = r.next() as u32;
                match r.below(4) {
                    0 => {
                        let w = (v & 0xFFFF_F000) | 0x0EF;
                        ins.extend_from_slice(&w.to_le_bytes());
                    }
                    1 => {
                        let rd = 1 + (r.below(31) as u32);
                        let w1 = (v & 0xFFFF_F000) | (rd << 7) | 0x17;
                        let v2 = r.next() as u32;
                        // I-type using rs1 = rd: jalr (0x67) / addi (0x13) / lw (0x03)
                        let opc = [0x67u32, 0x13, 0x03][r.below(3) as usize];
                        let w2 = (v2 & 0xFFF0_7F80) | (rd << 15) | opc;
                        ins.extend_from_slice(&w1.to_le_bytes());
                        ins.extend_from_slice(&w2.to_le_bytes());
                    }
                    2 => {
                        let w = (v & 0xFFFF_FF80) | 0x17;
                        ins.extend_from_slice(&w.to_le_bytes());
                    }
                    _ => {
                        ins.extend_from_slice(&(v as u16).to_le_bytes());
                    }
                }
            }
        }
        let room = target - out.len();
        out.extend_from_slice(&ins[..ins.len().min(room)]);
    }
}

// ---------------------------------------------------------------------------------------------
// strategies

/// Lengths with mass on the boundaries the code has.
pub fn len_strategy(max: u32) -> BoxedStrategy<u32> {
    let m = max.max(1);
    prop_oneof![
        3 => 0u32..=8.min(m),
        4 => 0u32..=300.min(m),
        4 => 0u32..=5000.min(m),
        3 => 0u32..=70_000.min(m),
        2 => 0u32..=m,
    ]
    .boxed()
}

pub fn seg_strategy(max_len: u32) -> BoxedStrategy<Seg> {
    let l = len_strategy(max_len);
    prop_oneof![
        3 => (l.clone(), any::<u64>()).prop_map(|(len, seed)| Seg::Rand { len, seed }),
        2 => (l.clone(), any::<u8>()).prop_map(|(len, byte)| Seg::Const { len, byte }),
        2 => (l.clone(), 1u16..600, any::<u64>())
            .prop_map(|(len, period, seed)| Seg::Periodic { len, period, seed }),
        3 => (l.clone(), dist_strategy()).prop_map(|(len, dist)| Seg::CopyBack { len, dist }),
        2 => (l.clone(), any::<u64>()).prop_map(|(len, seed)| Seg::Text { len, seed }),
        1 => (l.clone(), 0u8..8, any::<u64>())
            .prop_map(|(len, arch, seed)| Seg::Opcode { len, arch, seed }),
        1 => (l.clone(), 0u8..8, any::<u32>())
            .prop_map(|(len, file, off)| Seg::Exe { len, file, off }),
        3 => (l.clone(), any::<u64>()).prop_map(|(len, seed)| Seg::Mixed { len, seed }),
        1 => (l.clone(), 2u8..8, any::<u64>()).prop_map(|(len, alphabet, seed)| Seg::Tiles { len, alphabet, seed }),
        1 => (l, any::<u64>()).prop_map(|(len, seed)| Seg::X86Soup { len, seed }),
    ]
    .boxed()
}

/// Data that keeps the optimal parser in maximal pricing passes (a short match at every position) and then
/// offers a match longer than MATCH_LEN_MAX: what the encoder emits then depends on the look-ahead it was given.
pub fn long_pass_strategy(max_len: u32) -> BoxedStrategy<Data> {
    proptest::collection::vec(
        (4000u32..=max_len.max(4001), 2u8..7, any::<u64>(), 274u32..3000, 1u32..60_000),
        1..5,
    )
    .prop_map(|v| {
        let mut segs = vec![Seg::Rand { len: 1500, seed: v[0].2 ^ 0x55 }];
        for (len, alphabet, seed, clen, dist) in v {
            segs.push(Seg::Tiles { len, alphabet, seed });
            segs.push(Seg::CopyBack { len: clen, dist: dist + len });
        }
        Data { segs }
    })
    .boxed()
}

pub fn dist_strategy() -> BoxedStrategy<u32> {
    prop_oneof![
        3 => 1u32..16,
        3 => 1u32..5000,
        2 => 4000u32..70_000,
        1 => 1u32..4_000_000,
    ]
    .boxed()
}

/// General purpose data recipe: up to `max_segs` segments of at most `max_len` bytes each.
pub fn data_strategy(max_segs: usize, max_len: u32) -> BoxedStrategy<Data> {
    proptest::collection::vec(seg_strategy(max_len), 0..=max_segs)
        .prop_map(|segs| Data { segs })
        .boxed()
}

/// Small inputs for the container / corruption / fault properties.
pub fn small_data_strategy() -> BoxedStrategy<Data> {
    prop_oneof![
        1 => Just(Data::default()),
        8 => data_strategy(4, 3000),
    ]
    .boxed()
}

#[derive(Clone, Debug, Serialize, Deserialize, PartialEq)]
pub struct Opts {
    pub dict_size: u32,
    pub lc: u32,
    pub lp: u32,
    pub pb: u32,
    /// 0 = fast, 1 = normal
    pub mode: u8,
    pub nice_len: u32,
    /// 0 = HC4, 1 = BT4
    pub mf: u8,
    pub depth: i32,
}

impl Opts {
    pub fn to_lzma(&self) -> lzma_rust2::LZMAOptions {
        lzma_rust2::LZMAOptions::new(
            self.dict_size,
            self.lc,
            self.lp,
            self.pb,
            if self.mode == 0 {
                lzma_rust2::EncodeMode::Fast
            } else {
                lzma_rust2::EncodeMode::Normal
            },
            self.nice_len,
            if self.mf == 0 {
                lzma_rust2::MFType::HC4
            } else {
                lzma_rust2::MFType::BT4
            },
            self.depth,
        )
    }
    pub fn props(&self) -> u8 {
        ((self.pb * 5 + self.lp) * 9 + self.lc) as u8
    }
}

/// Dictionary sizes: minimum, just above, below/at/above 64 KiB, powers of two and 2^n+2^(n-1),
/// odd values. `max` bounds what is instantiated.
pub fn dict_strategy(max: u32) -> BoxedStrategy<u32> {
    let max = max.max(4096);
    let hi = (31 - max.leading_zeros()).max(12);
    prop_oneof![
        4 => Just(4096u32),
        2 => 4097u32..=8192,
        2 => 4096u32..=65_536.min(max),
        1 => Just(65_536u32.min(max)),
        3 => (12u32..=hi).prop_map(|n| 1u32 << n),
        2 => (12u32..hi.max(13)).prop_map(|n| (1u32 << n) + (1u32 << (n - 1))),
        2 => 4096u32..=max,
    ]
    .prop_map(move |d| d.min(max))
    .boxed()
}

pub fn nice_len_strategy() -> BoxedStrategy<u32> {
    prop_oneof![
        2 => Just(8u32),
        2 => Just(273u32),
        1 => Just(9u32),
        1 => Just(272u32),
        4 => 8u32..=273,
        2 => 8u32..=64,
    ]
    .boxed()
}

pub fn depth_strategy() -> BoxedStrategy<i32> {
    prop_oneof![
        4 => Just(0i32),
        2 => Just(1i32),
        3 => 2i32..200,
        1 => Just(1000i32),
    ]
    .boxed()
}

/// In-range option vector. `lzma2` restricts to lc+lp <= 4.
pub fn opts_strategy(max_dict: u32, lzma2: bool) -> BoxedStrategy<Opts> {
    let lclp = if lzma2 {
        prop_oneof![
            3 => Just((3u32, 0u32)),
            5 => (0u32..=4).prop_flat_map(|lc| (Just(lc), 0u32..=(4 - lc))),
        ]
        .boxed()
    } else {
        prop_oneof![
            3 => Just((3u32, 0u32)),
            4 => (0u32..=4).prop_flat_map(|lc| (Just(lc), 0u32..=(4 - lc))),
            3 => (0u32..=8, 0u32..=4),
        ]
        .boxed()
    };
    (
        dict_strategy(max_dict),
        lclp,
        prop_oneof![2 => Just(2u32), 3 => 0u32..=4],
        0u8..2,
        nice_len_strategy(),
        0u8..2,
        depth_strategy(),
    )
        .prop_map(|(dict_size, (lc, lp), pb, mode, nice_len, mf, depth)| Opts {
            dict_size,
            lc,
            lp,
            pb,
            mode,
            nice_len,
            mf,
            depth,
        })
        .boxed()
}

/// How the input is handed to a writer.
#[derive(Clone, Debug, Serialize, Deserialize, PartialEq)]
pub enum Plan {
    /// a single write_all
    All,
    /// write_all of fixed-size pieces
    Fixed(u32),
    /// pieces of the listed sizes, cycled
    Sizes(Vec<u32>),
}

impl Plan {
    pub fn pieces<'a>(&self, data: &'a [u8]) -> Vec<&'a [u8]> {
        let mut v = Vec::new();
        match self {
            Plan::All => v.push(data),
            Plan::Fixed(n) => {
                let n = (*n as usize).max(1);
                for c in data.chunks(n) {
                    v.push(c);
                }
            }
            Plan::Sizes(s) => {
                if s.is_empty() || s.iter().all(|&x| x == 0) {
                    v.push(data);
                } else {
                    let mut off = 0;
                    let mut i = 0;
                    while off < data.len() {
                        let n = (s[i % s.len()] as usize).min(data.len() - off);
                        v.push(&data[off..off + n]);
                        off += n;
                        i += 1;
                    }
                }
            }
        }
        v
    }
    pub fn is_multi(&self, len: usize) -> bool {
        match self {
            Plan::All => false,
            Plan::Fixed(n) => (*n as usize) < len,
            Plan::Sizes(s) => s.iter().any(|&x| x != 0) && s.iter().map(|&x| x as usize).max().unwrap_or(0) < len,
        }
    }
}

pub fn piece_size_strategy() -> BoxedStrategy<u32> {
    prop_oneof![
        2 => Just(1u32),
        2 => 1u32..16,
        2 => prop_oneof![Just(4095u32), Just(4096u32), Just(4097u32)],
        2 => 1u32..5000,
        1 => 1u32..100_000,
    ]
    .boxed()
}

pub fn plan_strategy() -> BoxedStrategy<Plan> {
    prop_oneof![
        4 => Just(Plan::All),
        2 => piece_size_strategy().prop_map(Plan::Fixed),
        3 => proptest::collection::vec(prop_oneof![1 => Just(0u32), 6 => piece_size_strategy()], 1..6)
            .prop_map(Plan::Sizes),
    ]
    .boxed()
}

/// Sequence of destination buffer sizes for readers (0 = zero-length read), cycled.
pub fn read_sizes_strategy() -> BoxedStrategy<Vec<u32>> {
    prop_oneof![
        3 => Just(vec![65_536u32]),
        2 => piece_size_strategy().prop_map(|n| vec![n]),
        4 => proptest::collection::vec(
            prop_oneof![1 => Just(0u32), 2 => Just(1u32), 5 => piece_size_strategy()],
            1..6
        ),
    ]
    .boxed()
}

/// Makes input and preset dictionary related, the way a preset dictionary is meant to be used: the
/// dictionary is made to end with the first 3-8 bytes of a string that occurs earlier in it, the
/// input starts by continuing that string for one byte and then differently, keeps copying pieces
/// of the dictionary (4-150 bytes, random offsets) between pieces of the original input, and later
/// repeats the earlier string in full.  Returns (dictionary, input).
pub fn weave_preset(preset: &[u8], base: &[u8], seed: u64) -> (Vec<u8>, Vec<u8>) {
    let mut r = Prng::new(seed);
    let mut dict = preset.to_vec();
    if dict.len() < 40 {
        return (dict, base.to_vec());
    }
    let p = r.below((dict.len() - 32) as u64) as usize;
    let k = 3 + r.below(6) as usize;
    let s: Vec<u8> = dict[p..p + 32].to_vec();
    dict.extend_from_slice(&s[..k]);
    let mut out: Vec<u8> = Vec::with_capacity(base.len() + 256);
    out.push(s[k]);
    out.push(s[k + 1] ^ 0x55);
    let mut b = 0usize;
    while b < base.len() {
        let n = (1 + r.below(300) as usize).min(base.len() - b);
        out.extend_from_slice(&base[b..b + n]);
        b += n;
        let len = 4 + r.below(147) as usize;
        let off = r.below(dict.len() as u64) as usize;
        let end = (off + len).min(dict.len());
        out.extend_from_slice(&dict[off..end]);
        if r.below(4) == 0 {
            out.extend_from_slice(&s);
        }
    }
    out.extend_from_slice(&s);
    (dict, out)
}
