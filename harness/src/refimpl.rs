//! Thin layer over liblzma (reference implementation), in-process.

use liblzma_sys as sys;
use serde::{Deserialize, Serialize};
use std::os::raw::c_void;

#[derive(Clone, Debug, Serialize, Deserialize, PartialEq)]
pub enum RefFilter {
    Delta(u32),
    /// id, start offset
    Bcj(u8, u32),
}

pub const BCJ_IDS: [u64; 8] = [
    sys::LZMA_FILTER_X86,
    sys::LZMA_FILTER_POWERPC,
    sys::LZMA_FILTER_IA64,
    sys::LZMA_FILTER_ARM,
    sys::LZMA_FILTER_ARMTHUMB,
    sys::LZMA_FILTER_SPARC,
    sys::LZMA_FILTER_ARM64,
    sys::LZMA_FILTER_RISCV,
];
/// alignment of the BCJ filters in the order of BCJ_IDS
pub const BCJ_ALIGN: [u32; 8] = [1, 4, 16, 4, 2, 4, 4, 2];
pub const BCJ_NAMES: [&str; 8] = ["x86", "ppc", "ia64", "arm", "armthumb", "sparc", "arm64", "riscv"];

#[derive(Clone, Debug, Serialize, Deserialize, PartialEq)]
pub struct RefLzma {
    pub dict_size: u32,
    pub lc: u32,
    pub lp: u32,
    pub pb: u32,
    /// 1 fast, 2 normal
    pub mode: u32,
    pub nice_len: u32,
    /// 3 hc3, 4 hc4, 18 bt2, 19 bt3, 20 bt4
    pub mf: u32,
    pub depth: u32,
}

impl RefLzma {
    pub fn preset(p: u32) -> RefLzma {
        let mut o: sys::lzma_options_lzma = unsafe { std::mem::zeroed() };
        unsafe { sys::lzma_lzma_preset(&mut o, p) };
        RefLzma {
            dict_size: o.dict_size,
            lc: o.lc,
            lp: o.lp,
            pb: o.pb,
            mode: o.mode as u32,
            nice_len: o.nice_len,
            mf: o.mf as u32,
            depth: o.depth,
        }
    }
    fn raw(&self, preset_dict: Option<&[u8]>) -> sys::lzma_options_lzma {
        let mut o: sys::lzma_options_lzma = unsafe { std::mem::zeroed() };
        o.dict_size = self.dict_size;
        o.lc = self.lc;
        o.lp = self.lp;
        o.pb = self.pb;
        o.mode = self.mode as sys::lzma_mode;
        o.nice_len = self.nice_len;
        o.mf = self.mf as sys::lzma_match_finder;
        o.depth = self.depth;
        if let Some(d) = preset_dict {
            if !d.is_empty() {
                o.preset_dict = d.as_ptr();
                o.preset_dict_size = d.len() as u32;
            }
        }
        o
    }
    /// decoder-side options from our option vector
    pub fn for_decode(dict_size: u32, lc: u32, lp: u32, pb: u32) -> RefLzma {
        RefLzma {
            dict_size,
            lc,
            lp,
            pb,
            mode: 1,
            nice_len: 32,
            mf: 4,
            depth: 0,
        }
    }
}

pub struct Chain {
    // boxed option structs must outlive the filter array
    _delta: Vec<Box<sys::lzma_options_delta>>,
    _bcj: Vec<Box<sys::lzma_options_bcj>>,
    _lzma: Vec<Box<sys::lzma_options_lzma>>,
    pub filters: Vec<sys::lzma_filter>,
}

impl Chain {
    pub fn new(pre: &[RefFilter], last_is_lzma1: bool, lzma: &RefLzma, preset_dict: Option<&[u8]>) -> Chain {
        let mut c = Chain {
            _delta: vec![],
            _bcj: vec![],
            _lzma: vec![],
            filters: vec![],
        };
        for f in pre {
            match f {
                RefFilter::Delta(d) => {
                    let mut o: sys::lzma_options_delta = unsafe { std::mem::zeroed() };
                    o.type_ = sys::lzma_delta_type_LZMA_DELTA_TYPE_BYTE;
                    o.dist = *d;
                    let mut b = Box::new(o);
                    c.filters.push(sys::lzma_filter {
                        id: sys::LZMA_FILTER_DELTA,
                        options: &mut *b as *mut _ as *mut c_void,
                    });
                    c._delta.push(b);
                }
                RefFilter::Bcj(id, off) => {
                    let mut b = Box::new(sys::lzma_options_bcj { start_offset: *off });
                    c.filters.push(sys::lzma_filter {
                        id: BCJ_IDS[*id as usize % 8],
                        options: &mut *b as *mut _ as *mut c_void,
                    });
                    c._bcj.push(b);
                }
            }
        }
        let mut b = Box::new(lzma.raw(preset_dict));
        c.filters.push(sys::lzma_filter {
            id: if last_is_lzma1 {
                sys::LZMA_FILTER_LZMA1
            } else {
                sys::LZMA_FILTER_LZMA2
            },
            options: &mut *b as *mut _ as *mut c_void,
        });
        c._lzma.push(b);
        c.filters.push(sys::lzma_filter {
            id: sys::LZMA_VLI_UNKNOWN,
            options: std::ptr::null_mut(),
        });
        c
    }
}

pub struct Strm {
    raw: sys::lzma_stream,
}

impl Drop for Strm {
    fn drop(&mut self) {
        unsafe { sys::lzma_end(&mut self.raw) }
    }
}

#[derive(Debug, Clone, PartialEq)]
pub struct RefOut {
    pub out: Vec<u8>,
    pub consumed: usize,
    /// true when LZMA_STREAM_END was returned
    pub ended: bool,
}

pub fn ret_name(r: sys::lzma_ret) -> String {
    match r {
        sys::LZMA_OK => "OK".into(),
        sys::LZMA_STREAM_END => "STREAM_END".into(),
        sys::LZMA_MEM_ERROR => "MEM_ERROR".into(),
        sys::LZMA_MEMLIMIT_ERROR => "MEMLIMIT_ERROR".into(),
        sys::LZMA_FORMAT_ERROR => "FORMAT_ERROR".into(),
        sys::LZMA_OPTIONS_ERROR => "OPTIONS_ERROR".into(),
        sys::LZMA_DATA_ERROR => "DATA_ERROR".into(),
        sys::LZMA_BUF_ERROR => "BUF_ERROR".into(),
        sys::LZMA_PROG_ERROR => "PROG_ERROR".into(),
        other => format!("ret{other}"),
    }
}

impl Strm {
    fn new() -> Strm {
        Strm {
            raw: unsafe { std::mem::zeroed() },
        }
    }

    /// Feeds all of `input` with LZMA_FINISH (or LZMA_RUN then FINISH) and collects the output.
    /// `max_out` caps the output.
    pub fn run(&mut self, input: &[u8], max_out: usize) -> Result<RefOut, String> {
        let mut out: Vec<u8> = Vec::with_capacity(64 * 1024);
        self.raw.next_in = input.as_ptr();
        self.raw.avail_in = input.len();
        let mut stall = 0;
        loop {
            if out.capacity() - out.len() < 32 * 1024 {
                out.reserve(out.len().max(64 * 1024));
            }
            let spare = out.spare_capacity_mut();
            self.raw.next_out = spare.as_mut_ptr() as *mut u8;
            self.raw.avail_out = spare.len();
            let before_out = self.raw.avail_out;
            let before_in = self.raw.avail_in;
            let r = unsafe { sys::lzma_code(&mut self.raw, sys::LZMA_FINISH) };
            let produced = before_out - self.raw.avail_out;
            unsafe { out.set_len(out.len() + produced) };
            match r {
                sys::LZMA_OK => {
                    if produced == 0 && before_in == self.raw.avail_in {
                        stall += 1;
                        if stall > 3 {
                            return Err("stalled".into());
                        }
                    } else {
                        stall = 0;
                    }
                    if out.len() > max_out {
                        return Err("output cap".into());
                    }
                }
                sys::LZMA_STREAM_END => {
                    return Ok(RefOut {
                        out,
                        consumed: input.len() - self.raw.avail_in,
                        ended: true,
                    });
                }
                other => return Err(ret_name(other)),
            }
        }
    }

    /// Encoder with explicit block boundaries: after each listed prefix length a FULL_FLUSH is
    /// issued (starts a new XZ block).
    pub fn run_blocks(&mut self, input: &[u8], cuts: &[usize]) -> Result<Vec<u8>, String> {
        let mut out: Vec<u8> = Vec::with_capacity(64 * 1024);
        let mut pos = 0usize;
        let mut bounds: Vec<usize> = cuts.iter().copied().filter(|&c| c > 0 && c < input.len()).collect();
        bounds.sort();
        bounds.dedup();
        bounds.push(input.len());
        for (k, &end) in bounds.iter().enumerate() {
            let last = k + 1 == bounds.len();
            let action = if last { sys::LZMA_FINISH } else { sys::LZMA_FULL_FLUSH };
            self.raw.next_in = input[pos..end].as_ptr();
            self.raw.avail_in = end - pos;
            loop {
                if out.capacity() - out.len() < 32 * 1024 {
                    out.reserve(out.len().max(64 * 1024));
                }
                let spare = out.spare_capacity_mut();
                self.raw.next_out = spare.as_mut_ptr() as *mut u8;
                self.raw.avail_out = spare.len();
                let before_out = self.raw.avail_out;
                let r = unsafe { sys::lzma_code(&mut self.raw, action) };
                let produced = before_out - self.raw.avail_out;
                unsafe { out.set_len(out.len() + produced) };
                match r {
                    sys::LZMA_OK => {}
                    sys::LZMA_STREAM_END => break,
                    other => return Err(ret_name(other)),
                }
            }
            pos = end;
        }
        Ok(out)
    }
}

fn cvt(r: sys::lzma_ret) -> Result<(), String> {
    if r == sys::LZMA_OK {
        Ok(())
    } else {
        Err(format!("init:{}", ret_name(r)))
    }
}

const MEMLIMIT: u64 = 1 << 31;

pub fn xz_decode(data: &[u8], concatenated: bool, max_out: usize) -> Result<RefOut, String> {
    let mut s = Strm::new();
    let flags = if concatenated { sys::LZMA_CONCATENATED } else { 0 };
    cvt(unsafe { sys::lzma_stream_decoder(&mut s.raw, MEMLIMIT, flags) })?;
    s.run(data, max_out)
}

pub fn alone_decode(data: &[u8], max_out: usize) -> Result<RefOut, String> {
    let mut s = Strm::new();
    cvt(unsafe { sys::lzma_alone_decoder(&mut s.raw, MEMLIMIT) })?;
    s.run(data, max_out)
}

pub fn lzip_decode(data: &[u8], concatenated: bool, max_out: usize) -> Result<RefOut, String> {
    let mut s = Strm::new();
    let flags = if concatenated { sys::LZMA_CONCATENATED } else { 0 };
    cvt(unsafe { sys::lzma_lzip_decoder(&mut s.raw, MEMLIMIT, flags) })?;
    s.run(data, max_out)
}

pub fn raw_decode(data: &[u8], chain: &Chain, max_out: usize) -> Result<RefOut, String> {
    let mut s = Strm::new();
    cvt(unsafe { sys::lzma_raw_decoder(&mut s.raw, chain.filters.as_ptr()) })?;
    s.run(data, max_out)
}

pub fn raw_encode(data: &[u8], chain: &Chain) -> Result<Vec<u8>, String> {
    let mut s = Strm::new();
    cvt(unsafe { sys::lzma_raw_encoder(&mut s.raw, chain.filters.as_ptr()) })?;
    s.run(data, usize::MAX).map(|o| o.out)
}

pub fn check_id(check: u8) -> sys::lzma_check {
    match check {
        0 => sys::LZMA_CHECK_NONE,
        1 => sys::LZMA_CHECK_CRC32,
        2 => sys::LZMA_CHECK_CRC64,
        _ => sys::LZMA_CHECK_SHA256,
    }
}

/// .xz with an explicit filter chain; `cuts` = block boundaries (uncompressed offsets).
pub fn xz_encode(data: &[u8], chain: &Chain, check: u8, cuts: &[usize]) -> Result<Vec<u8>, String> {
    let mut s = Strm::new();
    cvt(unsafe { sys::lzma_stream_encoder(&mut s.raw, chain.filters.as_ptr(), check_id(check)) })?;
    s.run_blocks(data, cuts)
}

pub fn xz_easy_encode(data: &[u8], preset: u32, check: u8) -> Result<Vec<u8>, String> {
    let mut s = Strm::new();
    cvt(unsafe { sys::lzma_easy_encoder(&mut s.raw, preset, check_id(check)) })?;
    s.run(data, usize::MAX).map(|o| o.out)
}

/// Multi-threaded stream encoder: blocks carry compressed/uncompressed size fields.
pub fn xz_mt_encode(data: &[u8], chain: &Chain, check: u8, block_size: u64, threads: u32) -> Result<Vec<u8>, String> {
    let mut s = Strm::new();
    let mut mt: sys::lzma_mt = unsafe { std::mem::zeroed() };
    mt.flags = 0;
    mt.threads = threads.max(1);
    mt.block_size = block_size;
    mt.timeout = 0;
    mt.filters = chain.filters.as_ptr();
    mt.check = check_id(check);
    cvt(unsafe { sys::lzma_stream_encoder_mt(&mut s.raw, &mt) })?;
    s.run(data, usize::MAX).map(|o| o.out)
}

pub fn alone_encode(data: &[u8], lzma: &RefLzma) -> Result<Vec<u8>, String> {
    let mut s = Strm::new();
    let o = lzma.raw(None);
    cvt(unsafe { sys::lzma_alone_encoder(&mut s.raw, &o) })?;
    s.run(data, usize::MAX).map(|o| o.out)
}

pub fn crc32(data: &[u8]) -> u32 {
    unsafe { sys::lzma_crc32(data.as_ptr(), data.len(), 0) }
}

pub fn crc64(data: &[u8]) -> u64 {
    unsafe { sys::lzma_crc64(data.as_ptr(), data.len(), 0) }
}

/// The filtered bytes liblzma's encoder-side filter produces:
/// raw_decode[LZMA2](raw_encode[filter, LZMA2](x)).
pub fn ref_filter_encode(data: &[u8], f: &RefFilter) -> Result<Vec<u8>, String> {
    let lz = RefLzma::preset(0);
    let enc = Chain::new(std::slice::from_ref(f), false, &lz, None);
    let packed = raw_encode(data, &enc)?;
    let dec = Chain::new(&[], false, &lz, None);
    raw_decode(&packed, &dec, data.len() + 1024).map(|o| o.out)
}

/// The bytes liblzma's decoder-side filter produces from `data`:
/// raw_decode[filter, LZMA2](raw_encode[LZMA2](x)).
pub fn ref_filter_decode(data: &[u8], f: &RefFilter) -> Result<Vec<u8>, String> {
    let lz = RefLzma::preset(0);
    let enc = Chain::new(&[], false, &lz, None);
    let packed = raw_encode(data, &enc)?;
    let dec = Chain::new(std::slice::from_ref(f), false, &lz, None);
    raw_decode(&packed, &dec, data.len() + 1024).map(|o| o.out)
}
