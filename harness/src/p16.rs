//! C16 — readers consume exactly the bytes of their stream.

use std::io::Cursor;

use lzma_rust2::{LZMA2Reader, LZMAReader};
use proptest::prelude::*;
use serde::{Deserialize, Serialize};

use crate::codec::*;
use crate::cont::*;
use crate::engine::*;
use crate::gen::*;

#[derive(Clone, Debug, Serialize, Deserialize)]
pub enum Trailing {
    None,
    Zeros(u32),
    Random { len: u32, seed: u64 },
    /// a second copy of the stream itself
    SameStream,
}

#[derive(Clone, Debug, Serialize, Deserialize)]
pub enum Kind {
    Lzma { framing: Framing, opts: Opts },
    Xz(XzCfg),
}

#[derive(Clone, Debug, Serialize, Deserialize)]
pub struct Case {
    pub data: Data,
    pub kind: Kind,
    pub trailing: Trailing,
    pub sizes: Vec<u32>,
    /// > 0 (LZMA2 only): read with LZMA2ReaderMT and this many workers (real threads)
    #[serde(default)]
    pub mt_workers: u8,
}

pub struct C16;

/// After end of stream further reads must keep reporting end of stream (and, checked by the
/// caller through the source position, must not touch the bytes that follow).
fn poll_after_eos<R: std::io::Read>(r: &mut R, res: std::io::Result<Vec<u8>>) -> std::io::Result<Vec<u8>> {
    let out = res?;
    let mut b = [0u8; 32];
    for _ in 0..2 {
        match r.read(&mut b) {
            Ok(0) => {}
            Ok(n) => return Err(std::io::Error::other(format!("VERIF: read after end of stream returned {n} bytes"))),
            Err(e) => return Err(std::io::Error::other(format!("VERIF: read after end of stream failed: {e}"))),
        }
    }
    Ok(out)
}

fn trailing_strategy() -> BoxedStrategy<Trailing> {
    prop_oneof![
        1 => Just(Trailing::None),
        2 => (1u32..40).prop_map(Trailing::Zeros),
        4 => (1u32..200, any::<u64>()).prop_map(|(len, seed)| Trailing::Random { len, seed }),
        2 => Just(Trailing::SameStream),
    ]
    .boxed()
}

impl Property for C16 {
    type Case = Case;
    const ID: &'static str = "C16";

    fn families(_tier: Tier) -> u32 {
        4
    }

    fn strategy(tier: Tier, family: u32) -> BoxedStrategy<Case> {
        let md = tier.pick(1 << 20, 16 << 20);
        let kind = match family {
            0 | 1 => opts_strategy(md, false)
                .prop_flat_map(|opts| {
                    let fr = prop_oneof![
                        Just(Framing::HeaderEos),
                        Just(Framing::HeaderSized),
                        Just(Framing::RawEos),
                        Just(Framing::RawSized),
                        Just(Framing::RawSizedEos)
                    ];
                    (fr, Just(opts))
                })
                .prop_map(|(framing, opts)| Kind::Lzma { framing, opts })
                .boxed(),
            2 => opts_strategy(md, true)
                .prop_flat_map(|opts| {
                    let d = opts.dict_size as u64;
                    (prop_oneof![Just(None), (1u64..=d * 2).prop_map(Some)], Just(opts))
                })
                .prop_map(|(chunk, opts)| Kind::Lzma {
                    framing: Framing::Lzma2 { chunk },
                    opts,
                })
                .boxed(),
            _ => xz_cfg_strategy(md)
                .prop_map(|mut c| {
                    c.filters.retain(|f| !f.is_bcj());
                    Kind::Xz(c)
                })
                .boxed(),
        };
        (
            prop_oneof![1 => Just(Data::default()), 9 => data_strategy(4, tier.pick(20_000, 200_000))],
            kind,
            trailing_strategy(),
            read_sizes_strategy(),
            prop_oneof![1 => Just(0u8), 1 => 1u8..=3],
        )
            .prop_map(|(data, kind, trailing, sizes, mt)| Case {
                data,
                mt_workers: if matches!(kind, Kind::Lzma { framing: Framing::Lzma2 { .. }, .. }) && !cfg!(lzma_rust2_verif_shuttle) { mt } else { 0 },
                kind,
                trailing,
                sizes,
            })
            .boxed()
    }

    fn budget(tier: Tier) -> u64 {
        tier.pick(60_000, 45_000)
    }

    fn rule() -> &'static str {
        "valid stream (LZMA with end marker / declared size / both, with and without .lzma header; LZMA2; single-stream XZ) followed by nothing, zeros, random bytes or another copy of the stream, read with a generated sequence of buffer sizes from a Cursor; oracle: decoded bytes equal the input, and after end of stream into_inner() is positioned exactly at the first trailing byte. Non-trivial = trailing bytes present. Distinct = hash of the case recipe."
    }

    fn floors(_tier: Tier) -> Vec<(&'static str, f64)> {
        vec![("trailing_nonzero", 40.0), ("lzma1", 30.0), ("lzma2", 15.0), ("xz", 15.0)]
    }

    fn run(case: &Case, obs: &mut Obs) -> Outcome {
        let data = case.data.expand();
        let cap = data.len() + (1 << 20);
        let stream = match &case.kind {
            Kind::Lzma { framing, opts } => encode_lzma(&data, opts, None, framing, &Plan::All)?,
            Kind::Xz(cfg) => encode_xz(&data, cfg, &Plan::All)?,
        };
        let mut file = stream.clone();
        match &case.trailing {
            Trailing::None => {}
            Trailing::Zeros(n) => file.resize(file.len() + *n as usize, 0),
            Trailing::Random { len, seed } => {
                let start = file.len();
                file.resize(start + *len as usize, 0);
                crate::gen::Prng::new(*seed).fill(&mut file[start..]);
                // make sure the first trailing byte is not zero so "zeros" is a separate class
                file[start] |= 1;
            }
            Trailing::SameStream => file.extend_from_slice(&stream),
        }
        obs.nontrivial = file.len() > stream.len();
        obs.class_if(matches!(case.trailing, Trailing::Random { .. } | Trailing::SameStream), "trailing_nonzero");
        let sizes = case.sizes.clone();
        let (res, pos) = match &case.kind {
            Kind::Lzma { framing, opts } => {
                let f = file.clone();
                let opts = opts.clone();
                let framing = framing.clone();
                let n = data.len();
                match framing {
                    #[cfg(not(lzma_rust2_verif_shuttle))]
                    Framing::Lzma2 { .. } if case.mt_workers > 0 => {
                        obs.class("lzma2");
                        obs.class("lzma2_mt_reader");
                        let workers = case.mt_workers as u32;
                        no_panic("lzma2-mt-decode", move || {
                            // the MT reader has no into_inner: it borrows the cursor
                            let mut c = Cursor::new(f);
                            let res = {
                                let mut r = lzma_rust2::LZMA2ReaderMT::new(&mut c, opts.dict_size, None, workers);
                                let res = read_all(&mut r, &sizes, cap);
                                poll_after_eos(&mut r, res)
                            };
                            (res, c.position() as usize)
                        })?
                    }
                    Framing::Lzma2 { .. } => {
                        obs.class("lzma2");
                        no_panic("lzma2-decode", move || {
                            let mut r = LZMA2Reader::new(Cursor::new(f), opts.dict_size, None);
                            let res = read_all(&mut r, &sizes, cap);
                            let res = poll_after_eos(&mut r, res);
                            (res, r.into_inner().position() as usize)
                        })?
                    }
                    _ => {
                        obs.class("lzma1");
                        no_panic("lzma-decode", move || {
                            let c = Cursor::new(f);
                            let r = match framing {
                                Framing::HeaderEos | Framing::HeaderSized => LZMAReader::new_mem_limit(c, u32::MAX, None),
                                Framing::RawEos => LZMAReader::new(c, u64::MAX, opts.lc, opts.lp, opts.pb, opts.dict_size, None),
                                _ => LZMAReader::new_with_props(c, n as u64, opts.props(), opts.dict_size, None),
                            };
                            match r {
                                Ok(mut r) => {
                                    let res = read_all(&mut r, &sizes, cap);
                                    let res = poll_after_eos(&mut r, res);
                                    (res, r.into_inner().position() as usize)
                                }
                                Err(e) => (Err(e), 0),
                            }
                        })?
                    }
                }
            }
            Kind::Xz(_) => {
                obs.class("xz");
                let f = file.clone();
                no_panic("xz-decode", move || {
                    let mut r = lzma_rust2::XZReader::new(Cursor::new(f), false);
                    let res = read_all(&mut r, &sizes, cap);
                    let res = poll_after_eos(&mut r, res);
                    (res, r.into_inner().position() as usize)
                })?
            }
        };
        match res {
            Ok(out) => {
                if out != data {
                    return Err(Failure::new("embedded-mismatch", first_diff(&out, &data)));
                }
                // RawSizedEos: the reader is told the size and stops there; the end marker that
                // follows is part of the stream the *writer* produced but a sized reader is
                // entitled to stop at the declared size (liblzma does the same); position must
                // then be <= stream end and the marker is not "trailing data" of the caller.
                let marker_left = matches!(&case.kind, Kind::Lzma { framing: Framing::RawSizedEos, .. });
                if marker_left {
                    obs.class("sized_with_marker");
                    if pos > stream.len() {
                        return Err(Failure::new(
                            "over-consumed",
                            format!("source at {pos}, stream ends at {}", stream.len()),
                        ));
                    }
                    return Ok(());
                }
                if pos != stream.len() {
                    return Err(Failure::new(
                        if pos > stream.len() { "over-consumed" } else { "under-consumed" },
                        format!("source at {pos}, stream ends at {} (file {})", stream.len(), file.len()),
                    ));
                }
                Ok(())
            }
            Err(e) => Err(Failure::new(
                "embedded-rejected",
                format!("stream followed by {:?} fails: {e}", case.trailing),
            )),
        }
    }
}
