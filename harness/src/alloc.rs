//! Accounting global allocator: live / peak bytes, largest request, optional junk fill of fresh
//! and freed memory, hard cap, and an electric-fence mode for big allocations.

use std::alloc::{GlobalAlloc, Layout, System};
use std::sync::atomic::{AtomicBool, AtomicU8, AtomicUsize, Ordering};

pub struct Acct;

static LIVE: AtomicUsize = AtomicUsize::new(0);
static PEAK: AtomicUsize = AtomicUsize::new(0);
static MAX_REQ: AtomicUsize = AtomicUsize::new(0);
static COUNT: AtomicUsize = AtomicUsize::new(0);
static JUNK: AtomicBool = AtomicBool::new(false);
/// refuse (return null) above this size; 0 = unlimited
static CAP: AtomicUsize = AtomicUsize::new(0);
static REFUSED: AtomicUsize = AtomicUsize::new(0);
/// 0 = off, 1 = guard page after the block, 2 = guard page before the block
static FENCE: AtomicU8 = AtomicU8::new(0);
static FENCE_EVER: AtomicBool = AtomicBool::new(false);
const FENCE_MIN: usize = 4096;
const PAGE: usize = 4096;

const TABLE: usize = 8192;
static T_PTR: [AtomicUsize; TABLE] = [const { AtomicUsize::new(0) }; TABLE];
static T_BASE: [AtomicUsize; TABLE] = [const { AtomicUsize::new(0) }; TABLE];
static T_TOTAL: [AtomicUsize; TABLE] = [const { AtomicUsize::new(0) }; TABLE];

#[inline]
fn note_alloc(size: usize) {
    let live = LIVE.fetch_add(size, Ordering::Relaxed) + size;
    PEAK.fetch_max(live, Ordering::Relaxed);
    MAX_REQ.fetch_max(size, Ordering::Relaxed);
    COUNT.fetch_add(1, Ordering::Relaxed);
}

fn table_insert(ptr: usize, base: usize, total: usize) -> bool {
    let start = (ptr >> 12) % TABLE;
    for k in 0..TABLE {
        let i = (start + k) % TABLE;
        if T_PTR[i]
            .compare_exchange(0, usize::MAX, Ordering::SeqCst, Ordering::SeqCst)
            .is_ok()
        {
            T_BASE[i].store(base, Ordering::SeqCst);
            T_TOTAL[i].store(total, Ordering::SeqCst);
            T_PTR[i].store(ptr, Ordering::SeqCst);
            return true;
        }
    }
    false
}

fn table_take(ptr: usize) -> Option<(usize, usize)> {
    let start = (ptr >> 12) % TABLE;
    for k in 0..TABLE {
        let i = (start + k) % TABLE;
        if T_PTR[i].load(Ordering::SeqCst) == ptr {
            let r = (T_BASE[i].load(Ordering::SeqCst), T_TOTAL[i].load(Ordering::SeqCst));
            T_PTR[i].store(0, Ordering::SeqCst);
            return Some(r);
        }
    }
    None
}

unsafe fn fence_alloc(layout: Layout, mode: u8) -> *mut u8 {
    let size = layout.size();
    let align = layout.align().max(1);
    let data_pages = (size + align).div_ceil(PAGE);
    // one guard page on each side is mapped, only one is protected
    let total = (data_pages + 2) * PAGE;
    let base = libc::mmap(
        std::ptr::null_mut(),
        total,
        libc::PROT_READ | libc::PROT_WRITE,
        libc::MAP_PRIVATE | libc::MAP_ANONYMOUS,
        -1,
        0,
    );
    if base == libc::MAP_FAILED {
        return std::ptr::null_mut();
    }
    let base = base as usize;
    let ptr = if mode == 1 {
        let guard = base + total - PAGE;
        libc::mprotect(guard as *mut _, PAGE, libc::PROT_NONE);
        (guard - size) & !(align - 1)
    } else {
        libc::mprotect(base as *mut _, PAGE, libc::PROT_NONE);
        base + PAGE
    };
    if !table_insert(ptr, base, total) {
        libc::munmap(base as *mut _, total);
        return std::ptr::null_mut();
    }
    ptr as *mut u8
}

#[inline]
fn fence_applies(layout: &Layout) -> u8 {
    let mode = FENCE.load(Ordering::Relaxed);
    if mode != 0 && layout.size() >= FENCE_MIN && layout.align() <= PAGE {
        mode
    } else {
        0
    }
}

unsafe impl GlobalAlloc for Acct {
    unsafe fn alloc(&self, layout: Layout) -> *mut u8 {
        let cap = CAP.load(Ordering::Relaxed);
        if cap != 0 && layout.size() > cap {
            REFUSED.fetch_max(layout.size(), Ordering::Relaxed);
            return std::ptr::null_mut();
        }
        let mode = fence_applies(&layout);
        let mut p = if mode != 0 {
            fence_alloc(layout, mode)
        } else {
            System.alloc(layout)
        };
        if p.is_null() && mode != 0 {
            p = System.alloc(layout);
        }
        if !p.is_null() {
            note_alloc(layout.size());
            if JUNK.load(Ordering::Relaxed) {
                std::ptr::write_bytes(p, 0xA5, layout.size());
            }
        }
        p
    }

    unsafe fn alloc_zeroed(&self, layout: Layout) -> *mut u8 {
        let cap = CAP.load(Ordering::Relaxed);
        if cap != 0 && layout.size() > cap {
            REFUSED.fetch_max(layout.size(), Ordering::Relaxed);
            return std::ptr::null_mut();
        }
        let mode = fence_applies(&layout);
        let mut p = if mode != 0 {
            // fresh anonymous mappings are zero
            fence_alloc(layout, mode)
        } else {
            System.alloc_zeroed(layout)
        };
        if p.is_null() && mode != 0 {
            p = System.alloc_zeroed(layout);
        }
        if !p.is_null() {
            note_alloc(layout.size());
        }
        p
    }

    unsafe fn dealloc(&self, ptr: *mut u8, layout: Layout) {
        LIVE.fetch_sub(layout.size(), Ordering::Relaxed);
        if FENCE_EVER.load(Ordering::Relaxed) && layout.size() >= FENCE_MIN {
            if let Some((base, total)) = table_take(ptr as usize) {
                libc::munmap(base as *mut _, total);
                return;
            }
        }
        if JUNK.load(Ordering::Relaxed) {
            std::ptr::write_bytes(ptr, 0x5A, layout.size());
        }
        System.dealloc(ptr, layout)
    }

    unsafe fn realloc(&self, ptr: *mut u8, layout: Layout, new_size: usize) -> *mut u8 {
        // always move: keeps accounting, junk and fence logic uniform
        let new_layout = Layout::from_size_align_unchecked(new_size, layout.align());
        let np = self.alloc(new_layout);
        if !np.is_null() {
            std::ptr::copy_nonoverlapping(ptr, np, layout.size().min(new_size));
            self.dealloc(ptr, layout);
        }
        np
    }
}

pub fn reset_peak() {
    PEAK.store(LIVE.load(Ordering::Relaxed), Ordering::Relaxed);
    MAX_REQ.store(0, Ordering::Relaxed);
    REFUSED.store(0, Ordering::Relaxed);
}
pub fn live() -> usize {
    LIVE.load(Ordering::Relaxed)
}
pub fn peak() -> usize {
    PEAK.load(Ordering::Relaxed)
}
pub fn max_request() -> usize {
    MAX_REQ.load(Ordering::Relaxed)
}
pub fn refused() -> usize {
    REFUSED.load(Ordering::Relaxed)
}
pub fn set_junk(on: bool) {
    JUNK.store(on, Ordering::Relaxed);
}
pub fn set_cap(bytes: usize) {
    CAP.store(bytes, Ordering::Relaxed);
}
pub fn set_fence(mode: u8) {
    if mode != 0 {
        FENCE_EVER.store(true, Ordering::SeqCst);
    }
    FENCE.store(mode, Ordering::SeqCst);
}
pub fn count() -> usize {
    COUNT.load(Ordering::Relaxed)
}
