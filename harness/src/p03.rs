//! C03 — interoperability with liblzma in both directions.

use std::io::Read;

use lzma_rust2::filter::bcj::BCJReader;
use lzma_rust2::filter::delta::DeltaReader;
use lzma_rust2::{LZMA2Reader, LZMAReader};
use proptest::prelude::*;
use serde::{Deserialize, Serialize};

use crate::codec::*;
use crate::cont::*;
use crate::engine::*;
use crate::gen::*;
use crate::refimpl::*;

#[derive(Clone, Debug, Serialize, Deserialize)]
pub enum Dir {
    // ours -> reference
    OursLzma { opts: Opts, sized: bool },
    OursRaw1 { opts: Opts },
    OursLzma2 { opts: Opts, chunk: Option<u64> },
    OursXz(XzCfg),
    OursLzip(LzipCfg),
    // reference -> ours
    RefEasy { preset: u32, extreme: bool, check: u8 },
    RefChain { filters: Vec<FilterSpec>, lzma: RefLzma, check: u8, cuts: Vec<u16> },
    RefMt { filters: Vec<FilterSpec>, lzma: RefLzma, check: u8, block: u32, threads: u32 },
    RefAlone { lzma: RefLzma },
    RefRaw2 { filters: Vec<FilterSpec>, lzma: RefLzma },
    RefLzip { lzma: RefLzma },
    // preset dictionaries (raw LZMA1 / LZMA2 only: no container stores one), both directions
    OursPreset { opts: Opts, lzma2: bool, preset: Data, weave: u64 },
    RefPreset { lzma: RefLzma, lzma2: bool, preset: Data, weave: u64 },
}

#[derive(Clone, Debug, Serialize, Deserialize)]
pub struct Case {
    pub data: Data,
    pub dir: Dir,
    pub plan: Plan,
    pub sizes: Vec<u32>,
}

pub struct C03;

/// dictionary sizes the .lzma decoder of the reference accepts: 2^n and 2^n + 2^(n-1)
fn alone_dict_strategy(max: u32) -> BoxedStrategy<u32> {
    let hi = 31 - max.leading_zeros();
    prop_oneof![
        (12u32..=hi).prop_map(|n| 1u32 << n),
        (12u32..hi.max(13)).prop_map(|n| (1u32 << n) + (1u32 << (n - 1))),
    ]
    .boxed()
}

fn ref_lzma_strategy(max_dict: u32) -> BoxedStrategy<RefLzma> {
    (
        dict_strategy(max_dict),
        (0u32..=4).prop_flat_map(|lc| (Just(lc), 0u32..=(4 - lc))),
        0u32..=4,
        1u32..=2,
        prop_oneof![Just(3u32), Just(4u32), Just(18u32), Just(19u32), Just(20u32)],
        prop_oneof![2 => 2u32..=273, 1 => Just(273u32), 1 => 2u32..12],
        prop_oneof![3 => Just(0u32), 2 => 1u32..200],
    )
        .prop_map(|(dict_size, (lc, lp), pb, mode, mf, nice, depth)| {
            // the reference requires nice_len >= the match finder's minimum (low nibble of its id)
            let min = mf & 0x0F;
            RefLzma {
                dict_size,
                lc,
                lp,
                pb,
                mode,
                nice_len: nice.max(min),
                mf,
                depth,
            }
        })
        .boxed()
}

fn single_bcj(mut f: Vec<FilterSpec>) -> Vec<FilterSpec> {
    // at most one BCJ filter in chains we *write* (stacked BCJ writers are the recorded finding)
    let mut seen = false;
    f.retain(|x| {
        if x.is_bcj() {
            if seen {
                return false;
            }
            seen = true;
        }
        true
    });
    f
}

fn dir_strategy(tier: Tier, family: u32) -> BoxedStrategy<Dir> {
    let md = tier.pick(4 << 20, 32 << 20);
    match family {
        0 => (opts_strategy(md, true), alone_dict_strategy(md), any::<bool>())
            .prop_map(|(mut opts, d, sized)| {
                opts.dict_size = d;
                Dir::OursLzma { opts, sized }
            })
            .boxed(),
        1 => opts_strategy(md, true).prop_map(|opts| Dir::OursRaw1 { opts }).boxed(),
        2 => opts_strategy(md, true)
            .prop_flat_map(|opts| {
                let d = opts.dict_size as u64;
                (Just(opts), prop_oneof![Just(None), (1u64..=d * 2).prop_map(Some)])
            })
            .prop_map(|(opts, chunk)| Dir::OursLzma2 { opts, chunk })
            .boxed(),
        3 | 4 => xz_cfg_strategy(md)
            .prop_map(|mut c| {
                c.filters = single_bcj(c.filters);
                Dir::OursXz(c)
            })
            .boxed(),
        5 => lzip_cfg_strategy(md).prop_map(Dir::OursLzip).boxed(),
        6 => (prop_oneof![4 => 0u32..=6, 1 => 7u32..=9], any::<bool>(), 0u8..4)
            .prop_map(|(preset, extreme, check)| Dir::RefEasy { preset, extreme, check })
            .boxed(),
        7 | 8 => (
            filters_strategy(),
            ref_lzma_strategy(md),
            0u8..4,
            proptest::collection::vec(0u16..1000, 0..4),
        )
            .prop_map(|(filters, lzma, check, cuts)| Dir::RefChain {
                filters,
                lzma,
                check,
                cuts,
            })
            .boxed(),
        9 => (filters_strategy(), ref_lzma_strategy(1 << 20), 0u8..4, 4096u32..60_000, 1u32..4)
            .prop_map(|(filters, lzma, check, block, threads)| Dir::RefMt {
                filters,
                lzma,
                check,
                block,
                threads,
            })
            .boxed(),
        10 => ref_lzma_strategy(md).prop_map(|lzma| Dir::RefAlone { lzma }).boxed(),
        11 => (filters_strategy(), ref_lzma_strategy(md))
            .prop_map(|(filters, lzma)| Dir::RefRaw2 { filters, lzma })
            .boxed(),
        14 => (opts_strategy(1 << 20, true), any::<bool>(), preset_data(), any::<u64>())
            .prop_map(|(opts, lzma2, preset, weave)| Dir::OursPreset { opts, lzma2, preset, weave })
            .boxed(),
        15 => (ref_lzma_strategy(1 << 20), any::<bool>(), preset_data(), any::<u64>())
            .prop_map(|(lzma, lzma2, preset, weave)| Dir::RefPreset { lzma, lzma2, preset, weave })
            .boxed(),
        _ => (ref_lzma_strategy(md), 12u32..=22)
            .prop_map(|(mut lzma, n)| {
                lzma.lc = 3;
                lzma.lp = 0;
                lzma.pb = 2;
                lzma.dict_size = 1 << n;
                Dir::RefLzip { lzma }
            })
            .boxed(),
    }
}

/// preset dictionaries: shorter than, about as long as and longer than the small dictionary sizes
fn preset_data() -> BoxedStrategy<Data> {
    prop_oneof![
        3 => data_strategy(3, 3000),
        2 => data_strategy(2, 20_000),
        1 => (1u32..40, any::<u64>()).prop_map(|(len, seed)| Data { segs: vec![Seg::Text { len, seed }] }),
    ]
    .boxed()
}

fn data_for(tier: Tier) -> BoxedStrategy<Data> {
    prop_oneof![
        1 => Just(Data::default()),
        6 => data_strategy(5, tier.pick(20_000, 200_000)),
        2 => proptest::collection::vec(
            prop_oneof![
                (100u32..30_000, 0u8..8, any::<u64>()).prop_map(|(len, arch, seed)| Seg::Opcode { len, arch, seed }),
                (100u32..30_000, 0u8..8, any::<u32>()).prop_map(|(len, file, off)| Seg::Exe { len, file, off }),
            ],
            1..3
        )
        .prop_map(|segs| Data { segs }),
        1 => (70_000u32..150_000, any::<u64>()).prop_map(|(len, seed)| Data { segs: vec![Seg::Rand { len, seed }, Seg::Mixed { len: 5000, seed }] }),
        // compressible, then a stored (incompressible) stretch, then a short compressible tail:
        // LZMA chunk -> uncompressed chunks -> LZMA chunk with a state reset (control 0xA0..)
        2 => (
            prop_oneof![seg_strategy(40_000), (500u32..30_000, any::<u64>()).prop_map(|(len, seed)| Seg::Text { len, seed })],
            66_000u32..140_000,
            any::<u64>(),
            prop_oneof![(50u32..6000, any::<u64>()).prop_map(|(len, seed)| Seg::Text { len, seed }), (50u32..70_000, any::<u64>()).prop_map(|(len, seed)| Seg::Mixed { len, seed }), seg_strategy(100_000)],
        )
            .prop_map(|(head, len, seed, tail)| Data { segs: vec![head, Seg::Rand { len, seed }, tail] }),
    ]
    .boxed()
}

fn lzip_dict_byte(dict: u32) -> u8 {
    // dict is a power of two in 2^12..2^29
    (31 - dict.leading_zeros()) as u8
}

fn same(what: &str, got: &[u8], want: &[u8]) -> Outcome {
    if got == want {
        Ok(())
    } else {
        Err(Failure::new(format!("{what}-mismatch"), first_diff(got, want)))
    }
}

fn ref_accepts(what: &str, r: Result<RefOut, String>, stream_len: usize, data: &[u8]) -> Outcome {
    match r {
        Err(e) => Err(Failure::new(
            format!("ref-rejects-{what}"),
            format!("liblzma: {e} (stream {stream_len} bytes, input {} bytes)", data.len()),
        )),
        Ok(o) => {
            if !o.ended || o.consumed != stream_len {
                return Err(Failure::new(
                    format!("ref-partial-{what}"),
                    format!("liblzma consumed {} of {stream_len} bytes, ended={}", o.consumed, o.ended),
                ));
            }
            same(&format!("ref-decodes-{what}"), &o.out, data)
        }
    }
}

impl Property for C03 {
    type Case = Case;
    const ID: &'static str = "C03";

    fn families(_tier: Tier) -> u32 {
        16
    }

    fn strategy(tier: Tier, family: u32) -> BoxedStrategy<Case> {
        if family == 13 {
            // more than 127 blocks in both directions (multi-byte record count in the index)
            return (
                (520_000u32..700_000, any::<u64>(), 1u16..400, any::<bool>()),
                prop_oneof![
                    xz_cfg_strategy(4096).prop_map(|mut c| {
                        c.filters.clear();
                        c.opts.dict_size = 4096;
                        c.opts.mode = 0;
                        c.block = Some(4096);
                        Dir::OursXz(c)
                    }),
                    (ref_lzma_strategy(4096), 0u8..4, 1u32..4).prop_map(|(mut lzma, check, threads)| {
                        lzma.dict_size = 4096;
                        lzma.mode = 1;
                        lzma.mf = 3;
                        lzma.nice_len = lzma.nice_len.max(3);
                        Dir::RefMt { filters: vec![], lzma, check, block: 4096, threads }
                    }),
                ],
                read_sizes_strategy(),
            )
                .prop_map(|((len, seed, period, text), dir, sizes)| Case {
                    data: Data {
                        segs: vec![if text { Seg::Text { len, seed } } else { Seg::Periodic { len, period, seed } }],
                    },
                    dir,
                    plan: Plan::Fixed(4096),
                    sizes,
                })
                .boxed();
        }
        (data_for(tier), dir_strategy(tier, family), plan_strategy(), read_sizes_strategy())
            .prop_map(|(data, dir, plan, sizes)| {
                let plan = match &dir {
                    Dir::OursXz(c) if c.filters.iter().any(|f| f.is_bcj()) => Plan::All,
                    _ => plan,
                };
                Case {
                    data,
                    dir,
                    plan,
                    sizes,
                }
            })
            .boxed()
    }

    fn budget(tier: Tier) -> u64 {
        tier.pick(12_000, 18_000)
    }

    fn rule() -> &'static str {
        "ours->ref: streams written by the crate (.lzma with dictionary sizes the reference's .lzma decoder supports, raw LZMA1 with end marker, raw LZMA2, .xz, .lz; lc+lp <= 4; preset dictionaries on raw LZMA1 / LZMA2 in both directions, dictionary and input related so that the first symbols are matches into the dictionary) must be accepted by liblzma, consumed completely and decode to the input. ref->ours: streams written by liblzma (easy presets 0-9 +/- extreme, custom LZMA options with all five match finders, filter chains, four check types, multi-block files from full flushes and from the MT encoder with size fields, .lzma, raw LZMA2 with filters, LZIP built from liblzma's LZMA1 stream) must decode with the crate to the input. Non-trivial = input >= 16 bytes. Distinct = hash of the case recipe."
    }

    fn floors(_tier: Tier) -> Vec<(&'static str, f64)> {
        vec![
            ("ours_to_ref", 35.0),
            ("ref_to_ours", 35.0),
            ("ref_multi_block", 3.0),
            ("blocks_128_plus", 1.0),
            ("ref_size_fields", 3.0),
            ("filters", 10.0),
            ("preset_ours_to_ref", 3.0),
            ("preset_ref_to_ours", 3.0),
            ("preset_referenced", 3.0),
        ]
    }

    fn assumptions() -> Vec<&'static str> {
        vec![
            "liblzma 5.8 (bundled with liblzma-sys 0.4.8, static) is the reference",
            "there is no independent LZIP encoder: .lz reference files are liblzma LZMA1 streams wrapped in a harness-written header/trailer",
            "ours->ref is narrowed to what the reference can decode: lc+lp<=4, .lzma dictionary 2^n or 2^n+2^(n-1); preset dictionaries only on raw LZMA1 / LZMA2 (no container stores one)",
        ]
    }

    fn known(case: &Case, f: &Failure) -> Option<&'static str> {
        if let Dir::OursXz(cfg) = &case.dir {
            if bcj_multiwrite_region(&cfg.filters, case.plan.is_multi(case.data.total_len())) {
                let _ = f;
                return Some("KF-BCJW-MULTIWRITE");
            }
        }
        None
    }

    fn run(case: &Case, obs: &mut Obs) -> Outcome {
        let data = case.data.expand();
        obs.nontrivial = data.len() >= 16;
        let cap = data.len() + (1 << 20);
        match &case.dir {
            Dir::OursLzma { opts, sized } => {
                obs.class("ours_to_ref");
                let fr = if *sized { Framing::HeaderSized } else { Framing::HeaderEos };
                let s = encode_lzma(&data, opts, None, &fr, &case.plan)?;
                ref_accepts("lzma", alone_decode(&s, cap), s.len(), &data)
            }
            Dir::OursRaw1 { opts } => {
                obs.class("ours_to_ref");
                let s = encode_lzma(&data, opts, None, &Framing::RawEos, &case.plan)?;
                let chain = Chain::new(&[], true, &RefLzma::for_decode(opts.dict_size, opts.lc, opts.lp, opts.pb), None);
                ref_accepts("raw-lzma1", raw_decode(&s, &chain, cap), s.len(), &data)
            }
            Dir::OursLzma2 { opts, chunk } => {
                obs.class("ours_to_ref");
                let s = encode_lzma(&data, opts, None, &Framing::Lzma2 { chunk: *chunk }, &case.plan)?;
                let chain = Chain::new(&[], false, &RefLzma::for_decode(opts.dict_size, opts.lc, opts.lp, opts.pb), None);
                ref_accepts("raw-lzma2", raw_decode(&s, &chain, cap), s.len(), &data)
            }
            Dir::OursXz(cfg) => {
                obs.class("ours_to_ref");
                obs.class_if(!cfg.filters.is_empty(), "filters");
                let s = encode_xz(&data, cfg, &case.plan)?;
                ref_accepts("xz", xz_decode(&s, false, cap), s.len(), &data)
            }
            Dir::OursLzip(cfg) => {
                obs.class("ours_to_ref");
                let s = encode_lzip(&data, cfg, &case.plan)?;
                ref_accepts("lzip", lzip_decode(&s, true, cap), s.len(), &data)
            }
            Dir::OursPreset { opts, lzma2, preset, weave } => {
                obs.class("ours_to_ref");
                obs.class("preset_ours_to_ref");
                let (dict, input) = weave_preset(&preset.expand(), &data, *weave);
                let dict = if dict.is_empty() { None } else { Some(dict) };
                obs.class_if(dict.as_ref().is_some_and(|d| d.len() >= 40), "preset_referenced");
                obs.class_if(dict.as_ref().is_some_and(|d| d.len() > opts.dict_size as usize), "preset_longer_than_dict");
                let fr = if *lzma2 { Framing::Lzma2 { chunk: None } } else { Framing::RawEos };
                let s = encode_lzma(&input, opts, dict.as_deref(), &fr, &case.plan)?;
                let chain = Chain::new(&[], !*lzma2, &RefLzma::for_decode(opts.dict_size, opts.lc, opts.lp, opts.pb), dict.as_deref());
                let cap = input.len() + (1 << 20);
                ref_accepts(if *lzma2 { "preset-lzma2" } else { "preset-lzma1" }, raw_decode(&s, &chain, cap), s.len(), &input)
            }
            Dir::RefPreset { lzma, lzma2, preset, weave } => {
                obs.class("ref_to_ours");
                obs.class("preset_ref_to_ours");
                let (dict, input) = weave_preset(&preset.expand(), &data, *weave);
                let dict = if dict.is_empty() { None } else { Some(dict) };
                obs.class_if(dict.as_ref().is_some_and(|d| d.len() >= 40), "preset_referenced");
                obs.class_if(dict.as_ref().is_some_and(|d| d.len() > lzma.dict_size as usize), "preset_longer_than_dict");
                let chain = Chain::new(&[], !*lzma2, lzma, dict.as_deref());
                let s = match raw_encode(&input, &chain) {
                    Ok(s) => s,
                    Err(e) => {
                        obs.class("ref_refused");
                        obs.nontrivial = false;
                        obs.notes.push(format!("reference refused raw preset options: {e}"));
                        return Ok(());
                    }
                };
                let cap = input.len() + (1 << 20);
                let sizes = case.sizes.clone();
                let (l2, lz) = (*lzma2, lzma.clone());
                let d2 = dict.clone();
                let r = no_panic("preset-decode", || -> std::io::Result<Vec<u8>> {
                    if l2 {
                        let mut r = LZMA2Reader::new(s.as_slice(), lz.dict_size, d2.as_deref());
                        read_all(&mut r, &sizes, cap)
                    } else {
                        let mut r = LZMAReader::new(s.as_slice(), u64::MAX, lz.lc, lz.lp, lz.pb, lz.dict_size, d2.as_deref())?;
                        read_all(&mut r, &sizes, cap)
                    }
                })?;
                match r {
                    Ok(out) => same("ours-decodes-ref-preset", &out, &input),
                    Err(e) => Err(Failure::new("ours-rejects-ref-preset", e.to_string())),
                }
            }
            Dir::RefEasy { preset, extreme, check } => {
                obs.class("ref_to_ours");
                let p = preset | if *extreme { 1 << 31 } else { 0 };
                let s = xz_easy_encode(&data, p, *check).map_err(|e| Failure::new("harness:ref-encode", e))?;
                ours_xz(&s, &data, &case.sizes, cap)
            }
            Dir::RefChain { filters, lzma, check, cuts } => {
                obs.class("ref_to_ours");
                obs.class_if(!filters.is_empty(), "filters");
                let pre: Vec<RefFilter> = filters.iter().map(|f| f.to_ref()).collect();
                let chain = Chain::new(&pre, false, lzma, None);
                let cuts: Vec<usize> = cuts.iter().map(|&c| data.len() * c as usize / 1000).collect();
                let s = match xz_encode(&data, &chain, *check, &cuts) {
                    Ok(s) => s,
                    Err(e) => {
                        obs.class("ref_refused");
                        obs.nontrivial = false;
                        obs.notes.push(format!("reference refused chain: {e}"));
                        return Ok(());
                    }
                };
                let w = crate::walk::walk_xz(&s);
                if w.error.is_some() {
                    return Err(Failure::new("harness:walker-vs-ref", format!("walker rejects a liblzma file: {:?}", w.error)));
                }
                obs.class_if(w.streams[0].blocks.len() >= 2, "ref_multi_block");
                obs.class_if(w.streams[0].blocks.len() >= 128, "blocks_128_plus");
                ours_xz(&s, &data, &case.sizes, cap)
            }
            Dir::RefMt { filters, lzma, check, block, threads } => {
                obs.class("ref_to_ours");
                obs.class_if(!filters.is_empty(), "filters");
                let pre: Vec<RefFilter> = filters.iter().map(|f| f.to_ref()).collect();
                let chain = Chain::new(&pre, false, lzma, None);
                let s = match xz_mt_encode(&data, &chain, *check, *block as u64, *threads) {
                    Ok(s) => s,
                    Err(e) => {
                        obs.class("ref_refused");
                        obs.nontrivial = false;
                        obs.notes.push(format!("reference refused mt chain: {e}"));
                        return Ok(());
                    }
                };
                let w = crate::walk::walk_xz(&s);
                if w.error.is_some() {
                    return Err(Failure::new("harness:walker-vs-ref", format!("walker rejects a liblzma file: {:?}", w.error)));
                }
                let bl = &w.streams[0].blocks;
                obs.class_if(bl.len() >= 2, "ref_multi_block");
                obs.class_if(bl.len() >= 128, "blocks_128_plus");
                obs.class_if(bl.iter().any(|b| b.compressed_size_field.is_some() && b.uncompressed_size_field.is_some()), "ref_size_fields");
                ours_xz(&s, &data, &case.sizes, cap)
            }
            Dir::RefAlone { lzma } => {
                obs.class("ref_to_ours");
                let s = match alone_encode(&data, lzma) {
                    Ok(s) => s,
                    Err(e) => {
                        obs.class("ref_refused");
                        obs.nontrivial = false;
                        obs.notes.push(format!("reference refused alone options: {e}"));
                        return Ok(());
                    }
                };
                let sizes = case.sizes.clone();
                let r = no_panic("lzma-decode", || {
                    let mut r = LZMAReader::new_mem_limit(s.as_slice(), u32::MAX, None)?;
                    read_all(&mut r, &sizes, cap)
                })?;
                match r {
                    Ok(out) => same("ours-decodes-ref-lzma", &out, &data),
                    Err(e) => Err(Failure::new("ours-rejects-ref-lzma", e.to_string())),
                }
            }
            Dir::RefRaw2 { filters, lzma } => {
                obs.class("ref_to_ours");
                obs.class_if(!filters.is_empty(), "filters");
                let pre: Vec<RefFilter> = filters.iter().map(|f| f.to_ref()).collect();
                let chain = Chain::new(&pre, false, lzma, None);
                let s = match raw_encode(&data, &chain) {
                    Ok(s) => s,
                    Err(e) => {
                        obs.class("ref_refused");
                        obs.nontrivial = false;
                        obs.notes.push(format!("reference refused raw chain: {e}"));
                        return Ok(());
                    }
                };
                let sizes = case.sizes.clone();
                let r = no_panic("lzma2-chain-decode", || {
                    let mut rd: Box<dyn Read> = Box::new(LZMA2Reader::new(s.as_slice(), lzma.dict_size, None));
                    for f in filters.iter().rev() {
                        rd = match *f {
                            FilterSpec::Delta(d) => Box::new(DeltaReader::new(rd, d as usize)),
                            FilterSpec::Bcj(a, st) => {
                                let st = st as usize;
                                match a % 8 {
                                    0 => Box::new(BCJReader::new_x86(rd, st)),
                                    1 => Box::new(BCJReader::new_ppc(rd, st)),
                                    2 => Box::new(BCJReader::new_ia64(rd, st)),
                                    3 => Box::new(BCJReader::new_arm(rd, st)),
                                    4 => Box::new(BCJReader::new_arm_thumb(rd, st)),
                                    5 => Box::new(BCJReader::new_sparc(rd, st)),
                                    6 => Box::new(BCJReader::new_arm64(rd, st)),
                                    _ => Box::new(BCJReader::new_riscv(rd, st)),
                                }
                            }
                        };
                    }
                    read_all(&mut rd, &sizes, cap)
                })?;
                match r {
                    Ok(out) => same("ours-decodes-ref-raw2", &out, &data),
                    Err(e) => Err(Failure::new("ours-rejects-ref-raw2", e.to_string())),
                }
            }
            Dir::RefLzip { lzma } => {
                obs.class("ref_to_ours");
                let a = alone_encode(&data, lzma).map_err(|e| Failure::new("harness:ref-encode", e))?;
                let body = &a[13..];
                let mut s = Vec::new();
                s.extend_from_slice(b"LZIP\x01");
                s.push(lzip_dict_byte(lzma.dict_size));
                s.extend_from_slice(body);
                s.extend_from_slice(&crc32(&data).to_le_bytes());
                s.extend_from_slice(&(data.len() as u64).to_le_bytes());
                let total = (s.len() + 8) as u64;
                s.extend_from_slice(&total.to_le_bytes());
                // sanity: the reference accepts the wrapped file
                if let Err(e) = lzip_decode(&s, true, cap) {
                    return Err(Failure::new("harness:lzip-wrap", e));
                }
                match decode_lzip(&s, &case.sizes, cap)? {
                    Ok(out) => same("ours-decodes-ref-lzip", &out, &data),
                    Err(e) => Err(Failure::new("ours-rejects-ref-lzip", e.to_string())),
                }
            }
        }
    }
}

fn ours_xz(s: &[u8], data: &[u8], sizes: &[u32], cap: usize) -> Outcome {
    match decode_xz(s, false, sizes, cap)? {
        Ok(out) => same("ours-decodes-ref-xz", &out, data),
        Err(e) => Err(Failure::new("ours-rejects-ref-xz", e.to_string())),
    }
}
