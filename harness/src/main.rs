#![allow(clippy::too_many_arguments)]
#![allow(dead_code)]

mod alloc;
mod codec;
mod engine;
mod fio;
mod gen;
#[cfg(lzma_rust2_verif_shuttle)]
mod mt;
mod cont;
mod p01;
mod p02;
mod p03;
mod p04;
mod p05;
mod p06;
mod p07;
mod p11;
mod p12;
mod p13;
mod p14;
mod p15;
mod fz;
mod p16;
mod p17;
mod p18;
mod p19;
mod refimpl;
mod walk;

use engine::*;
use serde_json::{json, Value};

#[global_allocator]
static GLOBAL: alloc::Acct = alloc::Acct;

fn arg_val(args: &[String], name: &str) -> Option<String> {
    args.iter()
        .position(|a| a == name)
        .and_then(|i| args.get(i + 1).cloned())
}

macro_rules! dispatch {
    ($id:expr, $f:ident, $($arg:expr),*) => {
        match $id {
            "C01" => $f::<p01::C01>($($arg),*),
            "C02" => $f::<p02::C02>($($arg),*),
            "C03" => $f::<p03::C03>($($arg),*),
            "C04" => $f::<p04::C04>($($arg),*),
            "C05" => $f::<p05::C05>($($arg),*),
            "C06" => $f::<p06::C06>($($arg),*),
            "C07" => $f::<p07::C07>($($arg),*),
            "C11" => $f::<p11::C11>($($arg),*),
            "C12" => $f::<p12::C12>($($arg),*),
            "C13" => $f::<p13::C13>($($arg),*),
            "C15" => $f::<p15::C15>($($arg),*),
            "C16" => $f::<p16::C16>($($arg),*),
            "C17" => $f::<p17::C17>($($arg),*),
            "C18" => $f::<p18::C18>($($arg),*),
            "C19" => $f::<p19::C19>($($arg),*),
            #[cfg(lzma_rust2_verif_shuttle)]
            "C08" => $f::<mt::C08>($($arg),*),
            #[cfg(lzma_rust2_verif_shuttle)]
            "C09" => $f::<mt::C09>($($arg),*),
            #[cfg(lzma_rust2_verif_shuttle)]
            "C10" => $f::<mt::C10>($($arg),*),
            other => {
                eprintln!("unknown property {other} (in this build)");
                std::process::exit(2);
            }
        }
    };
}

fn do_replay<P: Property>(file: &Value, path: &str) -> i32 {
    let kf = KnownFindings::load();
    let (r, k) = replay_case::<P>(&file["case"]);
    match r {
        Ok(()) => {
            println!("REPLAY-PASS property={} file={path}", P::ID);
            0
        }
        Err(f) => {
            if let Some(id) = k {
                if kf.is_active(id) {
                    println!("REPLAY-KNOWN property={} id={id} sig={} :: {}", P::ID, f.sig, f.detail);
                    return 3;
                }
            }
            println!("REPLAY-FAIL property={} sig={} :: {}", P::ID, f.sig, f.detail);
            println!("VIOLATION property={} replay={path}", P::ID);
            1
        }
    }
}

fn do_isolate<P: Property>(ctx: &Ctx, index: u64, family: u32) -> i32 {
    let seed = case_seed(ctx.seed, P::ID, ctx.shard, index);
    let case = generate::<P>(ctx.tier, family, seed);
    let v = serde_json::to_value(&case).unwrap();
    let replay = json!({
        "property": P::ID,
        "profile": ctx.profile,
        "sig": "process-death",
        "detail": "the shard process died while running this case",
        "origin": {"verif_seed": ctx.seed, "shard": ctx.shard, "index": index, "family": family, "case_seed": seed},
        "case": v,
    });
    let path = format!("{}/isolate_{}_{}.json", ctx.out_dir, ctx.shard, index);
    std::fs::write(&path, serde_json::to_string_pretty(&replay).unwrap()).unwrap();
    println!("ISOLATE-CASE {path}");
    let mut obs = Obs::default();
    match evaluate::<P>(&case, &mut obs) {
        Ok(()) => {
            println!("ISOLATE-PASS");
            0
        }
        Err(f) => {
            println!("ISOLATE-FAIL sig={} :: {}", f.sig, f.detail);
            1
        }
    }
}

fn do_gen<P: Property>(ctx: &Ctx, family: u32, count: u64) {
    for i in 0..count {
        let seed = case_seed(ctx.seed, P::ID, ctx.shard, i);
        let case = generate::<P>(ctx.tier, family, seed);
        let mut obs = Obs::default();
        let r = evaluate::<P>(&case, &mut obs);
        let s = serde_json::to_string(&case).unwrap();
        println!("{} {:?} {:?} {}", i, r.as_ref().err().map(|f| f.sig.clone()), obs.classes, &s[..s.len().min(600)]);
    }
}

fn main() {
    let args: Vec<String> = std::env::args().collect();
    if args.len() < 2 {
        eprintln!("usage: lzv run <Cxx> --tier quick|thorough --seed N --shard k --nshards n --out dir --profile name [--budget n]\n       lzv replay <file>\n       lzv isolate <Cxx> ... --index i --family f");
        std::process::exit(2);
    }
    install_panic_hook();
    let cmd = args[1].as_str();
    match cmd {
        "run" | "isolate" | "gen" => {
            let id = args[2].clone();
            let tier = match arg_val(&args, "--tier").as_deref() {
                Some("thorough") => Tier::Thorough,
                _ => Tier::Quick,
            };
            let ctx = Ctx {
                tier,
                seed: arg_val(&args, "--seed").and_then(|s| s.parse().ok()).unwrap_or(1),
                shard: arg_val(&args, "--shard").and_then(|s| s.parse().ok()).unwrap_or(0),
                nshards: arg_val(&args, "--nshards").and_then(|s| s.parse().ok()).unwrap_or(1),
                out_dir: arg_val(&args, "--out").unwrap_or_else(|| "/verif/work/tmp".into()),
                profile: arg_val(&args, "--profile").unwrap_or_else(|| "checked".into()),
                budget_override: arg_val(&args, "--budget").and_then(|s| s.parse().ok()),
            };
            if cmd == "run" {
                dispatch!(id.as_str(), shard_main, &ctx);
            } else if cmd == "gen" {
                let family = arg_val(&args, "--family").and_then(|s| s.parse().ok()).unwrap_or(0);
                let count = arg_val(&args, "--count").and_then(|s| s.parse().ok()).unwrap_or(10);
                dispatch!(id.as_str(), do_gen, &ctx, family, count);
            } else {
                let index = arg_val(&args, "--index").and_then(|s| s.parse().ok()).unwrap_or(0);
                let family = arg_val(&args, "--family").and_then(|s| s.parse().ok()).unwrap_or(0);
                let code = dispatch!(id.as_str(), do_isolate, &ctx, index, family);
                std::process::exit(code);
            }
        }
        "c14gen" => {
            let tier = match arg_val(&args, "--tier").as_deref() {
                Some("thorough") => Tier::Thorough,
                _ => Tier::Quick,
            };
            let seed = arg_val(&args, "--seed").and_then(|s| s.parse().ok()).unwrap_or(1);
            let count = arg_val(&args, "--count").and_then(|s| s.parse().ok()).unwrap_or(100);
            let out = arg_val(&args, "--out").unwrap_or_else(|| "/verif/work/c14_cases.jsonl".into());
            let meta = p14::generate(seed, tier, count, &out).expect("generate");
            println!("{meta}");
        }
        "fuzzseeds" => {
            let out = arg_val(&args, "--out").unwrap_or_else(|| "/verif/work/fuzzseeds".into());
            let n = fz::write_seeds(&out).expect("write seeds");
            println!("{n}");
        }
        "replay" => {
            let path = args[2].clone();
            let s = std::fs::read_to_string(&path).expect("read replay file");
            let v: Value = serde_json::from_str(&s).expect("parse replay file");
            let id = v["property"].as_str().unwrap_or("?").to_string();
            let code = dispatch!(id.as_str(), do_replay, &v, &path);
            std::process::exit(code);
        }
        _ => {
            eprintln!("unknown command {cmd}");
            std::process::exit(2);
        }
    }
}
