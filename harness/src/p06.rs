//! C06 — decoders are total on untrusted bytes: no panic, abort, hang or memory blow-up.

use std::io::{self, Read};
use std::time::Instant;

use lzma_rust2::filter::bcj2::BCJ2Reader;
use lzma_rust2::filter::delta::DeltaReader;
use lzma_rust2::{LZIPReader, LZMA2Reader, LZMAReader, XZReader};
use proptest::prelude::*;
use serde::{Deserialize, Serialize};

use crate::codec::*;
use crate::cont::*;
use crate::engine::*;
use crate::gen::*;
use crate::p11::bcj2_encode;
use crate::refimpl::{crc32, BCJ_ALIGN};
use crate::walk::*;

#[derive(Clone, Debug, Serialize, Deserialize)]
pub enum Dec {
    LzmaHeader { limit_kb: u32 },
    LzmaRaw { props: u8, dict: u32, size: u64 },
    Lzma2 { dict: u32 },
    Xz { multi: bool },
    Lzip,
    Bcj { arch: u8, start: u32 },
    Delta { dist: u32 },
    Bcj2 { size: u64 },
    /// multi-threaded readers on real threads
    LzipMt { workers: u32 },
    Lzma2Mt { dict: u32, workers: u32 },
}

#[derive(Clone, Debug, Serialize, Deserialize)]
pub enum MutOp {
    Flip { pos: u32, bit: u8 },
    Set { pos: u32, val: u8 },
    /// write a little-endian u32 boundary value at pos
    SetU32 { pos: u32, val: u8 },
    Truncate { at: u32 },
    Insert { pos: u32, len: u16, seed: u64 },
    Delete { pos: u32, len: u16 },
    /// overwrite inside a structural region found by the walker (0 stream flags, 1 block header,
    /// 2 first chunk header, 3 index, 4 footer, 5 lzip header, 6 lzip trailer)
    InRegion { region: u8, off: u16, val: u8 },
    /// append `n` copies of an empty member / empty stream of the format
    AppendEmpty { n: u32 },
    /// set the control byte of LZMA2 chunk `chunk` (located by the harness's chunk walker, also
    /// inside XZ blocks) to one of the class boundaries
    Control { chunk: u16, val: u8 },
}

#[derive(Clone, Debug, Serialize, Deserialize)]
pub enum Input {
    Random { len: u32, seed: u64, magic: bool },
    Mutated { data: Data, ops: Vec<MutOp>, fix_crc: bool },
    /// XZ only: stream header + block header generated from a grammar (sizes, flags, size
    /// fields, filter ids, property sizes all drawn from boundary sets) + payload + index + footer
    XzGrammar { seed: u64, good_crc: bool },
    /// literal bytes (hex): inputs found by the coverage-guided fuzzer
    Raw { hex: String },
}

#[derive(Clone, Debug, Serialize, Deserialize)]
pub struct Case {
    pub dec: Dec,
    pub input: Input,
    pub sizes: Vec<u32>,
}

pub struct C06;

const CONTROLS: [u8; 14] = [0x00, 0x01, 0x02, 0x03, 0x7F, 0x80, 0x9F, 0xA0, 0xBF, 0xC0, 0xDF, 0xE0, 0xFF, 0x81];
const U32_VALS: [u32; 10] = [0, 1, 0x7F, 0x80, 0xFFFF, 0x1_0000, 0x7FFF_FFFF, 0x8000_0000, 0xFFFF_FFFE, 0xFFFF_FFFF];

fn dec_strategy(family: u32) -> BoxedStrategy<Dec> {
    let dict = || {
        prop_oneof![
            4 => Just(4096u32),
            3 => (0u32..=36).prop_map(|p| (2 | (p & 1)) << (p / 2 + 11)),
            2 => 4096u32..(8 << 20),
        ]
    };
    match family % 10 {
        8 => (1u32..5).prop_map(|workers| Dec::LzipMt { workers }).boxed(),
        // every work unit allocates its own dictionary: keep it small so that inputs with 10^5
        // units stay cheap (the cost is linear in the number of units either way)
        9 => (prop_oneof![Just(4096u32), 4096u32..(1 << 20)], 1u32..5).prop_map(|(dict, workers)| Dec::Lzma2Mt { dict, workers }).boxed(),
        0 => prop_oneof![3 => Just(u32::MAX), 1 => 0u32..200_000].prop_map(|limit_kb| Dec::LzmaHeader { limit_kb }).boxed(),
        1 => (
            any::<u8>(),
            dict(),
            prop_oneof![Just(0u64), Just(1u64), 0u64..100_000, Just(1u64 << 63), Just(u64::MAX), Just(u64::MAX / 2), Just(u64::MAX / 2 + 1)],
        )
            .prop_map(|(props, dict, size)| Dec::LzmaRaw { props, dict, size })
            .boxed(),
        2 => dict().prop_map(|dict| Dec::Lzma2 { dict }).boxed(),
        3 | 4 => any::<bool>().prop_map(|multi| Dec::Xz { multi }).boxed(),
        5 => Just(Dec::Lzip).boxed(),
        6 => prop_oneof![
            3 => (0u8..8, prop_oneof![Just(0u32), any::<u32>()]).prop_map(|(arch, s)| Dec::Bcj {
                arch,
                start: s / BCJ_ALIGN[arch as usize] * BCJ_ALIGN[arch as usize]
            }),
            1 => (1u32..=256).prop_map(|dist| Dec::Delta { dist }),
        ]
        .boxed(),
        _ => prop_oneof![Just(0u64), 1u64..100_000, Just(u64::MAX), Just(1u64 << 40)].prop_map(|size| Dec::Bcj2 { size }).boxed(),
    }
}

fn op_strategy() -> BoxedStrategy<MutOp> {
    prop_oneof![
        4 => (any::<u32>(), 0u8..8).prop_map(|(pos, bit)| MutOp::Flip { pos, bit }),
        3 => (any::<u32>(), prop_oneof![Just(0u8), Just(0xFFu8), Just(0x80u8), Just(1u8), any::<u8>()]).prop_map(|(pos, val)| MutOp::Set { pos, val }),
        2 => (any::<u32>(), 0u8..10).prop_map(|(pos, val)| MutOp::SetU32 { pos, val }),
        1 => any::<u32>().prop_map(|at| MutOp::Truncate { at }),
        1 => (any::<u32>(), 1u16..64, any::<u64>()).prop_map(|(pos, len, seed)| MutOp::Insert { pos, len, seed }),
        1 => (any::<u32>(), 1u16..64).prop_map(|(pos, len)| MutOp::Delete { pos, len }),
        6 => (0u8..7, 0u16..64, prop_oneof![Just(0u8), Just(0xFFu8), Just(0x80u8), Just(0x7Fu8), Just(0x28u8), Just(0x29u8), any::<u8>()])
            .prop_map(|(region, off, val)| MutOp::InRegion { region, off, val }),
        1 => prop_oneof![6 => 1u32..40, 3 => 1000u32..3000, 1 => 150_000u32..250_000].prop_map(|n| MutOp::AppendEmpty { n }),
        4 => (0u16..40, 0u8..14).prop_map(|(chunk, val)| MutOp::Control { chunk, val }),
    ]
    .boxed()
}

fn input_strategy() -> BoxedStrategy<Input> {
    prop_oneof![
        2 => (0u32..3000, any::<u64>(), any::<bool>()).prop_map(|(len, seed, magic)| Input::Random { len, seed, magic }),
        2 => (any::<u64>(), prop_oneof![4 => Just(true), 1 => Just(false)]).prop_map(|(seed, good_crc)| Input::XzGrammar { seed, good_crc }),
        8 => (
            prop_oneof![1 => Just(Data::default()), 6 => data_strategy(3, 5000), 2 => data_strategy(3, 70_000)],
            proptest::collection::vec(op_strategy(), 1..6),
            prop_oneof![3 => Just(true), 1 => Just(false)],
        )
            .prop_map(|(data, ops, fix_crc)| Input::Mutated { data, ops, fix_crc }),
    ]
    .boxed()
}

fn lzma2_prop_dict(p: u8) -> u64 {
    if p > 40 {
        0
    } else if p == 40 {
        0xFFFF_FFFF
    } else {
        ((2 | (p as u64 & 1)) << (p / 2 + 11)) as u64
    }
}

/// Upper bound of the dictionary the (possibly mutated) input can legitimately make a decoder
/// allocate: every place that *looks like* a dictionary declaration counts.
fn declared_dict(dec: &Dec, input: &[u8]) -> u64 {
    match dec {
        Dec::LzmaHeader { .. } => {
            if input.len() >= 5 {
                u32::from_le_bytes([input[1], input[2], input[3], input[4]]) as u64
            } else {
                0
            }
        }
        Dec::LzmaRaw { dict, .. } | Dec::Lzma2 { dict } | Dec::Lzma2Mt { dict, .. } => *dict as u64,
        Dec::Xz { .. } => {
            let mut m = 0u64;
            for w in input.windows(3) {
                if w[0] == 0x21 && w[1] == 0x01 {
                    m = m.max(lzma2_prop_dict(w[2]));
                }
            }
            m
        }
        Dec::Lzip | Dec::LzipMt { .. } => {
            let mut m = 0u64;
            for w in input.windows(6) {
                if &w[0..4] == b"LZIP" {
                    m = m.max(lzip_dict_size(w[5]).unwrap_or(0) as u64);
                }
            }
            m
        }
        Dec::Bcj { .. } | Dec::Delta { .. } | Dec::Bcj2 { .. } => 0,
    }
}

fn build_base(dec: &Dec, data: &[u8]) -> Result<Vec<u8>, Failure> {
    let opts = Opts {
        dict_size: match dec {
            Dec::LzmaRaw { dict, .. } | Dec::Lzma2 { dict } | Dec::Lzma2Mt { dict, .. } => (*dict).clamp(4096, 1 << 20),
            _ => 4096,
        },
        lc: 3,
        lp: 0,
        pb: 2,
        mode: 0,
        nice_len: 32,
        mf: 0,
        depth: 0,
    };
    match dec {
        Dec::LzmaHeader { .. } => encode_lzma(data, &opts, None, &Framing::HeaderEos, &Plan::All),
        Dec::LzmaRaw { props, .. } => {
            // use the props the decoder will be told when they are valid, so that deep decoding
            // is reached
            let mut o = opts.clone();
            if *props <= 224 {
                let p = *props as u32;
                o.pb = p / 45;
                o.lp = (p % 45) / 9;
                o.lc = p % 9;
            }
            encode_lzma(data, &o, None, &Framing::RawEos, &Plan::All)
        }
        Dec::Lzma2 { .. } | Dec::Lzma2Mt { .. } => encode_lzma(data, &opts, None, &Framing::Lzma2 { chunk: Some(4096) }, &Plan::Fixed(3000)),
        Dec::Xz { .. } => {
            let cfg = XzCfg {
                check: 1 + (data.len() % 3) as u8,
                block: Some(4096),
                filters: if data.len() % 4 == 1 {
                    vec![FilterSpec::Delta(1 + (data.len() % 256) as u32)]
                } else if data.len() % 4 == 2 {
                    // every other one with a start offset (4-byte filter properties)
                    let a = (data.len() % 8) as u8;
                    vec![FilterSpec::Bcj(a, if data.len() % 8 >= 4 { 16 * (1 + data.len() as u32 % 1000) } else { 0 })]
                } else {
                    vec![]
                },
                opts,
            };
            let plan = if cfg.filters.iter().any(|f| f.is_bcj()) { Plan::All } else { Plan::Fixed(3000) };
            encode_xz(data, &cfg, &plan)
        }
        Dec::Lzip | Dec::LzipMt { .. } => encode_lzip(
            data,
            &LzipCfg {
                opts,
                member: Some(4096),
            },
            &Plan::All,
        ),
        Dec::Bcj { .. } | Dec::Delta { .. } => Ok(data.to_vec()),
        Dec::Bcj2 { .. } => {
            let s = bcj2_encode(data, |k| k % 3 != 0);
            // the four streams are packed as len-prefixed blobs; the runner splits them again
            let mut v = Vec::new();
            for st in [&s.main, &s.call, &s.jump, &s.rc] {
                v.extend_from_slice(&(st.len() as u32).to_le_bytes());
                v.extend_from_slice(st);
            }
            Ok(v)
        }
    }
}

fn fix_xz_crcs(orig: &XzWalk, m: &mut [u8]) {
    for s in &orig.streams {
        let fix = |m: &mut [u8], a: usize, b: usize, c: usize| {
            if c + 4 <= m.len() && b <= m.len() && a <= b {
                let crc = crc32(&m[a..b]);
                m[c..c + 4].copy_from_slice(&crc.to_le_bytes());
            }
        };
        fix(m, s.offset + 6, s.offset + 8, s.offset + 8);
        for b in &s.blocks {
            // the header size byte may have been changed: recompute for the (new) declared size
            let hs = if b.offset < m.len() { (m[b.offset] as usize + 1) * 4 } else { b.header_size };
            for hs in [b.header_size, hs] {
                if hs >= 8 {
                    fix(m, b.offset, b.offset + hs - 4, b.offset + hs - 4);
                }
            }
        }
        fix(m, s.index_offset, s.index_offset + s.index_len - 4, s.index_offset + s.index_len - 4);
        fix(m, s.footer_offset + 4, s.footer_offset + 10, s.footer_offset);
    }
}

fn apply_ops(dec: &Dec, base: &[u8], ops: &[MutOp], fix_crc: bool) -> Vec<u8> {
    let mut m = base.to_vec();
    let xzw = if matches!(dec, Dec::Xz { .. }) { Some(walk_xz(base)) } else { None };
    let lzw = if matches!(dec, Dec::Lzip | Dec::LzipMt { .. }) { Some(walk_lzip(base)) } else { None };
    let mut same_layout = true;
    for op in ops {
        let n = m.len();
        match *op {
            MutOp::Flip { pos, bit } if n > 0 => m[pos as usize % n] ^= 1 << (bit % 8),
            MutOp::Set { pos, val } if n > 0 => m[pos as usize % n] = val,
            MutOp::SetU32 { pos, val } if n >= 4 => {
                let p = pos as usize % (n - 3);
                m[p..p + 4].copy_from_slice(&U32_VALS[val as usize % 10].to_le_bytes());
            }
            MutOp::Truncate { at } if n > 0 => {
                m.truncate(at as usize % n);
                same_layout = false;
            }
            MutOp::Insert { pos, len, seed } => {
                let p = if n == 0 { 0 } else { pos as usize % (n + 1) };
                let mut ins = vec![0u8; len as usize];
                Prng::new(seed).fill(&mut ins);
                m.splice(p..p, ins);
                same_layout = false;
            }
            MutOp::Delete { pos, len } if n > 0 => {
                let p = pos as usize % n;
                let e = (p + len as usize).min(n);
                m.drain(p..e);
                same_layout = false;
            }
            MutOp::InRegion { region, off, val } => {
                let mut target: Option<usize> = None;
                if let Some(w) = &xzw {
                    if w.error.is_none() && !w.streams.is_empty() && same_layout {
                        let s = &w.streams[off as usize % w.streams.len()];
                        target = match region % 5 {
                            0 => Some(s.offset + 6 + off as usize % 6),
                            1 if !s.blocks.is_empty() => {
                                let b = &s.blocks[off as usize % s.blocks.len()];
                                Some(b.offset + off as usize % b.header_size)
                            }
                            2 if !s.blocks.is_empty() => {
                                let b = &s.blocks[off as usize % s.blocks.len()];
                                Some(b.data_offset + off as usize % 8)
                            }
                            3 => Some(s.index_offset + off as usize % s.index_len),
                            _ => Some(s.footer_offset + off as usize % 12),
                        };
                    }
                }
                if let Some(w) = &lzw {
                    if w.error.is_none() && !w.members.is_empty() && same_layout {
                        let mem = &w.members[off as usize % w.members.len()];
                        target = match region % 3 {
                            0 => Some(mem.offset + off as usize % 12),
                            1 => Some(mem.offset + mem.size - 20 + off as usize % 20),
                            _ => Some(mem.offset + off as usize % mem.size),
                        };
                    }
                }
                if target.is_none() && n > 0 {
                    // formats without a walker: heads are where the structure is
                    target = Some(off as usize % n.min(32));
                }
                if let Some(t) = target {
                    if t < m.len() {
                        m[t] = val;
                    }
                }
            }
            MutOp::Control { chunk, val } => {
                // offsets of LZMA2 chunk headers in the *base* layout
                let mut offs: Vec<usize> = Vec::new();
                if matches!(dec, Dec::Lzma2 { .. } | Dec::Lzma2Mt { .. }) {
                    offs = walk_lzma2(base).chunks.iter().map(|c| c.offset).collect();
                } else if let Some(w) = &xzw {
                    if w.error.is_none() {
                        for s in &w.streams {
                            for b in &s.blocks {
                                let payload = &base[b.data_offset..b.check_offset];
                                offs.extend(walk_lzma2(payload).chunks.iter().map(|c| b.data_offset + c.offset));
                            }
                        }
                    }
                }
                if same_layout && !offs.is_empty() {
                    let o = offs[chunk as usize % offs.len()];
                    if o < m.len() {
                        m[o] = CONTROLS[val as usize % CONTROLS.len()];
                    }
                }
            }
            MutOp::AppendEmpty { n } => {
                // the deep-recursion sizes are reserved for the MT readers (36 bytes per member)
                // (and for the XZ reader with multi-stream decoding: streams without blocks)
                let n = if n > 3000 && !matches!(dec, Dec::LzipMt { .. } | Dec::Lzma2Mt { .. } | Dec::Xz { multi: true }) { n % 3000 } else { n };
                let unit: Vec<u8> = match dec {
                    Dec::Lzip | Dec::LzipMt { .. } => {
                        // an empty member: header + end marker stream + trailer (36 bytes)
                        let cfg = LzipCfg {
                            opts: Opts {
                                dict_size: 4096,
                                lc: 3,
                                lp: 0,
                                pb: 2,
                                mode: 0,
                                nice_len: 32,
                                mf: 0,
                                depth: 0,
                            },
                            member: None,
                        };
                        encode_lzip(&[], &cfg, &Plan::All).unwrap_or_default()
                    }
                    Dec::Lzma2 { .. } | Dec::Lzma2Mt { .. } => {
                        // an empty-ish LZMA2 unit: dictionary reset + 1 byte
                        vec![0x01, 0x00, 0x00, 0x41]
                    }
                    Dec::Xz { .. } => {
                        // a stream without blocks: header, empty index, footer (32 bytes, check type CRC32)
                        let mut u = b"\xFD7zXZ\0\0\x01".to_vec();
                        let c = crc32(&u[6..8]);
                        u.extend_from_slice(&c.to_le_bytes());
                        let index = [0u8, 0, 0, 0];
                        u.extend_from_slice(&index);
                        u.extend_from_slice(&crc32(&index).to_le_bytes());
                        let tail = [1u8, 0, 0, 0, 0, 1];
                        u.extend_from_slice(&crc32(&tail).to_le_bytes());
                        u.extend_from_slice(&tail);
                        u.extend_from_slice(b"YZ");
                        u
                    }
                    _ => vec![],
                };
                if !unit.is_empty() {
                    if matches!(dec, Dec::Lzma2 { .. } | Dec::Lzma2Mt { .. }) && m.last() == Some(&0) {
                        m.pop();
                        for _ in 0..n {
                            m.extend_from_slice(&unit);
                        }
                        m.push(0);
                    } else {
                        for _ in 0..n {
                            m.extend_from_slice(&unit);
                        }
                    }
                    same_layout = false;
                }
            }
            _ => {}
        }
    }
    if fix_crc && same_layout {
        if let Some(w) = &xzw {
            if w.error.is_none() {
                fix_xz_crcs(w, &mut m);
            }
        }
    }
    m
}

/// An XZ file whose block header is drawn from a grammar of boundary values.
fn xz_grammar(seed: u64, good_crc: bool) -> Vec<u8> {
    let mut r = Prng::new(seed);
    let mut f = Vec::new();
    // stream header
    let check = [0u8, 1, 4, 10, 2, 15][r.below(6) as usize];
    f.extend_from_slice(b"\xFD7zXZ\0");
    f.extend_from_slice(&[0, check]);
    let c = crc32(&[0, check]);
    f.extend_from_slice(&c.to_le_bytes());
    let blocks = 1 + r.below(2);
    for _ in 0..blocks {
        // block header body
        let mut body: Vec<u8> = Vec::new();
        let nf = r.below(4) as u8;
        let flags = nf | [0u8, 0x40, 0x80, 0xC0, 0x04, 0x3C][r.below(6) as usize];
        body.push(flags);
        let vli = |r: &mut Prng, out: &mut Vec<u8>| {
            match r.below(6) {
                0 => out.push(0),
                1 => out.push(r.below(128) as u8),
                2 => vli_encode(r.below(1 << 20), out),
                3 => vli_encode(u64::MAX >> 1, out),
                4 => out.extend_from_slice(&[0x80; 3]),
                _ => out.extend_from_slice(&[0xFF; 9]),
            }
        };
        if flags & 0x40 != 0 {
            vli(&mut r, &mut body);
        }
        if flags & 0x80 != 0 {
            vli(&mut r, &mut body);
        }
        for k in 0..=(nf as usize) {
            let last = k == nf as usize;
            let id: u64 = if last && r.below(8) != 0 {
                0x21
            } else {
                [0x03u64, 0x04, 0x05, 0x06, 0x07, 0x08, 0x09, 0x0A, 0x0B, 0x21, 0x00, 0x02, 0x0C, 0x4000_0000_0000_0001][r.below(14) as usize]
            };
            vli_encode(id, &mut body);
            let ps = match id {
                0x21 | 0x03 => [1u64, 1, 1, 0, 2][r.below(5) as usize],
                0x04..=0x0B => [0u64, 4, 4, 4, 1, 5, 3][r.below(7) as usize],
                _ => r.below(6),
            };
            vli_encode(ps, &mut body);
            let want = if r.below(6) == 0 { r.below(6) as usize } else { ps as usize };
            for j in 0..want {
                body.push(match id {
                    0x21 => [0u8, 4, 18, 40, 41, 0xFF][r.below(6) as usize],
                    0x03 => [0u8, 0xFF, 7][r.below(3) as usize],
                    _ => {
                        if j == 0 {
                            [0u8, 16, 1, 0xF0][r.below(4) as usize]
                        } else {
                            [0u8, 0xFF, 0x7F][r.below(3) as usize]
                        }
                    }
                });
            }
        }
        // header size: the right one (60 %), or any other multiple of four up to one word past
        // it, so that the declared header ends inside every possible field; when the body does
        // not fit, the body bytes themselves take the place of the CRC
        let need = (1 + body.len() + 4).div_ceil(4) * 4;
        let hs = if r.below(10) < 6 {
            need
        } else {
            match r.below(8) {
                0 => 1024,
                _ => 8 + 4 * r.below((need as u64 + 4 - 8) / 4 + 1) as usize,
            }
        }
        .clamp(8, 1024);
        let mut hdr = vec![(hs / 4 - 1) as u8];
        hdr.extend_from_slice(&body);
        if hdr.len() + 4 <= hs {
            let pad = hs - 4 - hdr.len();
            for _ in 0..pad {
                hdr.push(if r.below(20) == 0 { 1 } else { 0 });
            }
            let c = if good_crc { crc32(&hdr) } else { r.next() as u32 };
            hdr.extend_from_slice(&c.to_le_bytes());
        } else {
            hdr.truncate(hs);
            while hdr.len() < hs {
                hdr.push(0);
            }
        }
        f.extend_from_slice(&hdr);
        // payload: a small valid LZMA2 stream (uncompressed chunk) or junk
        let payload: Vec<u8> = match r.below(4) {
            0 => vec![0x00],
            1 => vec![0x01, 0x00, 0x03, b'a', b'b', b'c', b'd', 0x00],
            2 => vec![0x01, 0x00, 0x00, b'x', 0xA0, 0x00, 0x0F, 0x00, 0x09, 0, 1, 2, 3, 4, 5, 6, 7, 8, 0x00],
            _ => {
                let mut j = vec![0u8; r.below(40) as usize];
                r.fill(&mut j);
                j
            }
        };
        f.extend_from_slice(&payload);
        while f.len() % 4 != 0 {
            f.push(0);
        }
        let cl = check_len(check);
        let data: &[u8] = match payload.len() {
            8 => b"abcd",
            _ => b"",
        };
        let mut ck = compute_check(check, data);
        ck.resize(cl, 0);
        f.extend_from_slice(&ck);
    }
    // index + footer: mostly consistent
    let mut idx = vec![0u8];
    vli_encode(if r.below(8) == 0 { r.below(1 << 40) } else { blocks }, &mut idx);
    for _ in 0..blocks {
        vli_encode(24 + r.below(40), &mut idx);
        vli_encode(r.below(8), &mut idx);
    }
    while idx.len() % 4 != 0 {
        idx.push(0);
    }
    let c = crc32(&idx);
    idx.extend_from_slice(&c.to_le_bytes());
    f.extend_from_slice(&idx);
    let mut foot = Vec::new();
    foot.extend_from_slice(&((idx.len() / 4 - 1) as u32).to_le_bytes());
    foot.extend_from_slice(&[0, check]);
    let c = crc32(&foot);
    f.extend_from_slice(&c.to_le_bytes());
    f.extend_from_slice(&foot);
    f.extend_from_slice(b"YZ");
    f
}

/// reads after an error / after the end of the stream must still return: a handful of them, with different
/// buffer sizes (a stored error may be handed out only once and the state behind it be unusable)
fn poke<R: Read>(r: &mut R) {
    let mut b = [0u8; 16];
    for n in [16usize, 1, 0, 16, 7] {
        let _ = r.read(&mut b[..n]);
    }
}

/// drives the decoder over the input; every call must return
fn drive(dec: &Dec, input: Vec<u8>, sizes: &[u32], cap: usize) -> io::Result<Vec<u8>> {
    match dec {
        Dec::LzmaHeader { limit_kb } => {
            let mut r = LZMAReader::new_mem_limit(input.as_slice(), *limit_kb, None)?;
            let res = read_all(&mut r, sizes, cap);
            poke(&mut r);
            res
        }
        Dec::LzmaRaw { props, dict, size } => {
            let mut r = LZMAReader::new_with_props(input.as_slice(), *size, *props, *dict, None)?;
            let res = read_all(&mut r, sizes, cap);
            poke(&mut r);
            res
        }
        Dec::Lzma2 { dict } => {
            let mut r = LZMA2Reader::new(input.as_slice(), *dict, None);
            let res = read_all(&mut r, sizes, cap);
            poke(&mut r);
            res
        }
        Dec::Xz { multi } => {
            let mut r = XZReader::new(input.as_slice(), *multi);
            let res = read_all(&mut r, sizes, cap);
            poke(&mut r);
            res
        }
        Dec::Lzip => {
            let mut r = LZIPReader::new(input.as_slice())?;
            let res = read_all(&mut r, sizes, cap);
            poke(&mut r);
            res
        }
        Dec::Bcj { arch, start } => {
            let t = crate::p05::Target::Bcj { arch: *arch, start: *start };
            t.read_from_pub(input, 0, sizes, cap)
        }
        Dec::Delta { dist } => {
            let mut r = DeltaReader::new(input.as_slice(), *dist as usize);
            let res = read_all(&mut r, sizes, cap);
            poke(&mut r);
            res
        }
        #[cfg(not(lzma_rust2_verif_shuttle))]
        Dec::LzipMt { workers } => {
            let mut r = lzma_rust2::LZIPReaderMT::new(std::io::Cursor::new(input), *workers)?;
            let res = read_all(&mut r, sizes, cap);
            poke(&mut r);
            res
        }
        #[cfg(not(lzma_rust2_verif_shuttle))]
        Dec::Lzma2Mt { dict, workers } => {
            let mut r = lzma_rust2::LZMA2ReaderMT::new(std::io::Cursor::new(input), *dict, None, *workers);
            let res = read_all(&mut r, sizes, cap);
            poke(&mut r);
            res
        }
        #[cfg(lzma_rust2_verif_shuttle)]
        Dec::LzipMt { .. } | Dec::Lzma2Mt { .. } => Err(io::Error::other("MT decoders need the real-thread build")),
        Dec::Bcj2 { size } => {
            // split the blob into four streams (tolerating damage of the length prefixes)
            let mut streams: Vec<std::io::Cursor<Vec<u8>>> = Vec::new();
            let mut p = 0usize;
            for _ in 0..4 {
                let mut len = 0usize;
                if p + 4 <= input.len() {
                    len = u32::from_le_bytes([input[p], input[p + 1], input[p + 2], input[p + 3]]) as usize;
                    p += 4;
                }
                let e = (p.saturating_add(len)).min(input.len());
                streams.push(std::io::Cursor::new(input[p..e].to_vec()));
                p = e;
            }
            let mut r = BCJ2Reader::new(streams, *size);
            let res = read_all(&mut r, sizes, cap);
            poke(&mut r);
            res
        }
    }
}

impl Property for C06 {
    type Case = Case;
    const ID: &'static str = "C06";

    fn families(_tier: Tier) -> u32 {
        10
    }

    fn strategy(_tier: Tier, family: u32) -> BoxedStrategy<Case> {
        (dec_strategy(family), input_strategy(), read_sizes_strategy())
            .prop_map(|(dec, input, sizes)| Case { dec, input, sizes })
            .boxed()
    }

    fn budget(tier: Tier) -> u64 {
        tier.pick(150_000, 120_000)
    }

    fn case_timeout_s(_tier: Tier) -> u64 {
        45
    }

    fn rule() -> &'static str {
        "case = (decoder + caller-side parameters: props byte 0-255, dictionary size, declared size incl. 2^63 and u64::MAX, memory limit, BCJ start offset, delta distance, BCJ2 declared size; input = valid stream of that decoder mutated by 1-5 operations: bit flip, byte set, u32 boundary value, truncate, insert, delete, overwrite inside a structural region located by the harness's walker, append 1-3000 empty members/units; CRC32s of XZ structures recomputed in 3 of 4 cases so that the damage reaches deep parsing; or a random string with or without the magic). Oracle: every read call returns (Ok or Err) - a panic, a shadow assertion, an abort (process death, detected through the journal) or a stack overflow is a violation; peak heap during the case <= declared dictionary (every place in the input that looks like a dictionary declaration counts) + 8 MiB + 4 x input length; a case that needs more than 20 s is a violation. Non-trivial = the walker / first-bytes test says the header stage was passed. Distinct = hash of the case recipe."
    }

    fn floors(_tier: Tier) -> Vec<(&'static str, f64)> {
        vec![("deep", 35.0), ("xz", 12.0), ("lzip", 6.0), ("lzma2", 6.0), ("lzma1", 12.0), ("bcj2", 6.0), ("filters", 6.0), ("crc_fixed", 8.0), ("mt_reader", 10.0)]
    }

    fn assumptions() -> Vec<&'static str> {
        vec![
            "the MT readers run here on real threads (schedules are explored in C09); a blocked read shows up as the shard watchdog + isolation re-run",
            "dictionary sizes handed to constructors are those a container can hand over (LZMA2 property values and [4096, 8 MiB]); 4 GiB dictionaries are only reached through XZ header bytes",
        ]
    }

    fn run(case: &Case, obs: &mut Obs) -> Outcome {
        let input: Vec<u8> = match &case.input {
            Input::Random { len, seed, magic } => {
                let mut v = vec![0u8; *len as usize];
                Prng::new(*seed).fill(&mut v);
                if *magic {
                    let mg: &[u8] = match &case.dec {
                        Dec::Xz { .. } => b"\xFD7zXZ\0\0\x01\x69\x22\xde\x36",
                        Dec::Lzip | Dec::LzipMt { .. } => b"LZIP\x01\x0c",
                        Dec::LzmaHeader { .. } => b"\x5d\x00\x10\x00\x00\xff\xff\xff\xff\xff\xff\xff\xff\x00",
                        Dec::Lzma2 { .. } | Dec::Lzma2Mt { .. } => b"\xe0\x00\x40\x00\x30\x5d\x00",
                        Dec::LzmaRaw { .. } => b"\x00",
                        _ => b"",
                    };
                    let n = mg.len().min(v.len());
                    v[..n].copy_from_slice(&mg[..n]);
                }
                obs.class("random");
                v
            }
            Input::XzGrammar { seed, good_crc } => {
                obs.class("grammar");
                xz_grammar(*seed, *good_crc)
            }
            Input::Raw { hex } => {
                obs.class("fuzzer_input");
                let h = hex.as_bytes();
                let nib = |c: u8| -> u8 {
                    match c {
                        b'0'..=b'9' => c - b'0',
                        b'a'..=b'f' => c - b'a' + 10,
                        b'A'..=b'F' => c - b'A' + 10,
                        _ => 0,
                    }
                };
                h.chunks(2).filter(|c| c.len() == 2).map(|c| nib(c[0]) << 4 | nib(c[1])).collect()
            }
            Input::Mutated { data, ops, fix_crc } => {
                let d = data.expand();
                let base = build_base(&case.dec, &d)?;
                obs.class_if(*fix_crc && matches!(case.dec, Dec::Xz { .. }), "crc_fixed");
                apply_ops(&case.dec, &base, ops, *fix_crc)
            }
        };
        let name = match &case.dec {
            Dec::LzmaHeader { .. } | Dec::LzmaRaw { .. } => "lzma1",
            Dec::Lzma2 { .. } => "lzma2",
            Dec::Xz { .. } => "xz",
            Dec::Lzip => "lzip",
            Dec::LzipMt { .. } | Dec::Lzma2Mt { .. } => "mt_reader",
            Dec::Bcj { .. } | Dec::Delta { .. } => "filters",
            Dec::Bcj2 { .. } => "bcj2",
        };
        obs.class(name);
        // "deep" = passes the magic / first header stage
        let deep = match &case.dec {
            Dec::Xz { .. } => input.len() >= 12 && input.starts_with(b"\xFD7zXZ\0") && crc32(&input[6..8]) == u32::from_le_bytes([input[8], input[9], input[10], input[11]]),
            Dec::Lzip | Dec::LzipMt { .. } => input.len() >= 6 && input.starts_with(b"LZIP\x01") && lzip_dict_size(input[5]).is_some(),
            Dec::LzmaHeader { .. } => input.len() > 13 && input[0] <= 224 && input[13] == 0,
            Dec::LzmaRaw { props, .. } => *props <= 224 && input.first() == Some(&0),
            Dec::Lzma2 { .. } | Dec::Lzma2Mt { .. } => matches!(input.first(), Some(&c) if c == 1 || c >= 0xE0),
            Dec::Bcj2 { .. } => input.len() > 24,
            _ => !input.is_empty(),
        };
        obs.class_if(deep, "deep");
        obs.nontrivial = deep;

        let allowed = declared_dict(&case.dec, &input) + (8 << 20) + 4 * input.len() as u64
            + if matches!(case.dec, Dec::Bcj2 { .. }) { 2 << 20 } else { 0 }
            // the MT readers buffer whole decoded units by design (5 workers x (dictionary + unit) + queue of 4 units)
            + if matches!(case.dec, Dec::LzipMt { .. } | Dec::Lzma2Mt { .. }) { 8 * declared_dict(&case.dec, &input) + (64 << 20) } else { 0 };
        let n = input.len();
        let t0 = Instant::now();
        crate::alloc::reset_peak();
        let before = crate::alloc::live();
        let dec = case.dec.clone();
        let sizes = case.sizes.clone();
        let r = no_panic("decode", move || drive(&dec, input, &sizes, 64 << 20));
        let peak = crate::alloc::peak().saturating_sub(before) as u64;
        let dt = t0.elapsed().as_secs_f64();
        r.map_err(|mut f| {
            f.detail = format!("{name} on {n} input bytes: {}", f.detail);
            f
        })?
        .ok();
        if peak > allowed {
            return Err(Failure::new(
                format!("memory-blowup-{name}"),
                format!("peak heap {peak} bytes for {n} input bytes, bound {allowed} (largest request {})", crate::alloc::max_request()),
            ));
        }
        if dt > 20.0 {
            return Err(Failure::new(format!("slow-{name}"), format!("{dt:.1} s for {n} input bytes")));
        }
        Ok(())
    }
}
