//! Case engine: deterministic per-case seeds, proptest generation + shrinking, panic capture,
//! known-finding exclusion, journalling, per-shard result files.

use std::cell::RefCell;
use std::collections::BTreeMap;
use std::fmt::Debug;
use std::io::Write as _;
use std::panic::{catch_unwind, AssertUnwindSafe};
use std::sync::Mutex;
use std::time::Instant;

use proptest::strategy::{BoxedStrategy, Strategy, ValueTree};
use proptest::test_runner::{Config, RngAlgorithm, RngSeed, TestCaseError, TestError, TestRunner};
use serde::de::DeserializeOwned;
use serde::Serialize;
use serde_json::{json, Value};

use crate::gen::fnv64;

#[derive(Clone, Copy, Debug, PartialEq, Eq)]
pub enum Tier {
    Quick,
    Thorough,
}

impl Tier {
    pub fn pick<T>(self, q: T, t: T) -> T {
        match self {
            Tier::Quick => q,
            Tier::Thorough => t,
        }
    }
}

/// What a failed oracle reports. `sig` is a stable, short signature (used to key known findings
/// and to group failures), `detail` is free text.
#[derive(Clone, Debug)]
pub struct Failure {
    pub sig: String,
    pub detail: String,
}

impl Failure {
    pub fn new(sig: impl Into<String>, detail: impl Into<String>) -> Self {
        Failure {
            sig: sig.into(),
            detail: detail.into(),
        }
    }
}

pub type Outcome = Result<(), Failure>;

/// Observations a property run makes about its case (classification, not verdict).
#[derive(Default, Debug)]
pub struct Obs {
    pub classes: Vec<&'static str>,
    pub nontrivial: bool,
    /// extra distinctness keys (e.g. one per mutant inside a case); when empty the case hash is
    /// used
    pub keys: Vec<u64>,
    /// number of oracle evaluations inside this case (defaults to 1)
    pub evals: u64,
    pub notes: Vec<String>,
}

impl Obs {
    pub fn class(&mut self, c: &'static str) {
        if !self.classes.contains(&c) {
            self.classes.push(c);
        }
    }
    pub fn class_if(&mut self, cond: bool, c: &'static str) {
        if cond {
            self.class(c);
        }
    }
}

pub trait Property {
    type Case: Serialize + DeserializeOwned + Debug + Clone + 'static;
    const ID: &'static str;
    /// `family` selects a generator family; the engine cycles through `families()`.
    fn strategy(tier: Tier, family: u32) -> BoxedStrategy<Self::Case>;
    fn families(_tier: Tier) -> u32 {
        1
    }
    /// cases per run (all shards together)
    fn budget(tier: Tier) -> u64;
    fn run(case: &Self::Case, obs: &mut Obs) -> Outcome;
    /// If the failure is one of the catalogued findings, return its id.
    fn known(_case: &Self::Case, _f: &Failure) -> Option<&'static str> {
        None
    }
    /// Class floors: (class name, minimum fraction of evaluations in percent)
    fn floors(_tier: Tier) -> Vec<(&'static str, f64)> {
        vec![]
    }
    fn rule() -> &'static str;
    fn level() -> &'static str {
        "exploration"
    }
    fn assumptions() -> Vec<&'static str> {
        vec![]
    }
    fn exhaustive(_tier: Tier) -> bool {
        false
    }
    /// Some(n) overrides the number of shrink iterations; Some(0) also makes the shard stop at
    /// its first violation (used by the scheduler-driven checks: the process is not reused after
    /// a scheduler failure).
    fn shrink_iters(_tier: Tier) -> Option<u32> {
        None
    }
    /// seconds a single case (or shrink candidate) may take before the shard gives up on it
    fn case_timeout_s(_tier: Tier) -> u64 {
        300
    }
}

// ---------------------------------------------------------------------------------------------
// panic capture

thread_local! {
    static LAST_PANIC: RefCell<Option<(String, String)>> = const { RefCell::new(None) };
}
static FOREIGN_PANICS: Mutex<Vec<(String, String)>> = Mutex::new(Vec::new());
static MAIN_THREAD: Mutex<Option<std::thread::ThreadId>> = Mutex::new(None);

pub fn install_panic_hook() {
    *MAIN_THREAD.lock().unwrap() = Some(std::thread::current().id());
    std::panic::set_hook(Box::new(|info| {
        let loc = info
            .location()
            .map(|l| format!("{}:{}", l.file(), l.line()))
            .unwrap_or_else(|| "?".into());
        let msg = if let Some(s) = info.payload().downcast_ref::<&str>() {
            s.to_string()
        } else if let Some(s) = info.payload().downcast_ref::<String>() {
            s.clone()
        } else {
            "<non-string panic>".into()
        };
        let main = *MAIN_THREAD.lock().unwrap();
        if Some(std::thread::current().id()) == main {
            LAST_PANIC.with(|p| *p.borrow_mut() = Some((loc, msg)));
        } else {
            FOREIGN_PANICS.lock().unwrap().push((loc.clone(), msg.clone()));
            LAST_PANIC.with(|p| *p.borrow_mut() = Some((loc, msg)));
        }
    }));
}

pub fn take_foreign_panics() -> Vec<(String, String)> {
    std::mem::take(&mut *FOREIGN_PANICS.lock().unwrap())
}

fn short_loc(loc: &str) -> String {
    // keep the path below the crate root so signatures are stable
    if let Some(i) = loc.find("/src/") {
        if loc.starts_with("/repo") {
            return format!("repo{}", &loc[i..]);
        }
        if loc.starts_with("/verif") || loc.starts_with("src/") {
            return format!("harness{}", &loc[i..]);
        }
        let tail: Vec<&str> = loc.rsplitn(4, '/').collect();
        return tail.into_iter().rev().collect::<Vec<_>>().join("/");
    }
    loc.to_string()
}

/// Runs `f`, converting a panic into a Failure whose signature is `panic@<file:line>`.
pub fn guarded<T>(f: impl FnOnce() -> Result<T, Failure>) -> Result<T, Failure> {
    LAST_PANIC.with(|p| *p.borrow_mut() = None);
    match catch_unwind(AssertUnwindSafe(f)) {
        Ok(r) => r,
        Err(_) => {
            let (loc, msg) = LAST_PANIC
                .with(|p| p.borrow_mut().take())
                .unwrap_or(("?".into(), "?".into()));
            let loc = short_loc(&loc);
            let kind = if msg.starts_with("VERIF-SHADOW:") {
                "shadow"
            } else {
                "panic"
            };
            Err(Failure::new(format!("{kind}@{loc}"), msg))
        }
    }
}

/// Runs a closure that talks to the code under test; a panic becomes `Err(Failure)`.
pub fn no_panic<T>(what: &str, f: impl FnOnce() -> T) -> Result<T, Failure> {
    guarded(|| Ok(f())).map_err(|mut e| {
        e.detail = format!("{what}: {}", e.detail);
        e
    })
}

// ---------------------------------------------------------------------------------------------
// known findings

#[derive(Default, Clone)]
pub struct KnownFindings {
    /// ids with status "known"
    pub active: Vec<String>,
}

impl KnownFindings {
    pub fn load() -> Self {
        let mut kf = KnownFindings::default();
        if let Ok(s) = std::fs::read_to_string("/verif/known_findings.json") {
            if let Ok(v) = serde_json::from_str::<Value>(&s) {
                if let Some(a) = v.get("known").and_then(|k| k.as_array()) {
                    for e in a {
                        if let Some(id) = e.get("id").and_then(|i| i.as_str()) {
                            kf.active.push(id.to_string());
                        }
                    }
                }
            }
        }
        kf
    }
    pub fn is_active(&self, id: &str) -> bool {
        self.active.iter().any(|a| a == id)
    }
}

// ---------------------------------------------------------------------------------------------

pub struct Ctx {
    pub tier: Tier,
    pub seed: u64,
    pub shard: u32,
    pub nshards: u32,
    pub out_dir: String,
    pub profile: String,
    pub budget_override: Option<u64>,
}

pub fn case_seed(seed: u64, id: &str, shard: u32, i: u64) -> u64 {
    let mut buf = Vec::new();
    buf.extend_from_slice(&seed.to_le_bytes());
    buf.extend_from_slice(id.as_bytes());
    buf.extend_from_slice(&shard.to_le_bytes());
    buf.extend_from_slice(&i.to_le_bytes());
    let mut r = crate::gen::Prng::new(fnv64(&buf));
    r.next()
}

fn seed_bytes(seed: u64) -> [u8; 32] {
    let mut r = crate::gen::Prng::new(seed);
    let mut b = [0u8; 32];
    r.fill(&mut b);
    b
}

pub fn runner_for(seed: u64, shrink_iters: u32) -> TestRunner {
    let cfg = Config {
        cases: 1,
        failure_persistence: None,
        max_shrink_iters: shrink_iters,
        max_shrink_time: 0,
        rng_algorithm: RngAlgorithm::ChaCha,
        rng_seed: RngSeed::Fixed(seed),
        ..Config::default()
    };
    let rng = proptest::test_runner::TestRng::from_seed(RngAlgorithm::ChaCha, &seed_bytes(seed));
    TestRunner::new_with_rng(cfg, rng)
}

pub fn generate<P: Property>(tier: Tier, family: u32, seed: u64) -> P::Case {
    let mut runner = runner_for(seed, 0);
    P::strategy(tier, family)
        .new_tree(&mut runner)
        .expect("strategy failed")
        .current()
}

fn truncate_json(v: Value, max: usize) -> Value {
    let s = v.to_string();
    if s.len() <= max {
        v
    } else {
        json!({"truncated_case_json": s.chars().take(max).collect::<String>()})
    }
}

pub struct ShardResult {
    pub evaluations: u64,
    pub cases: u64,
    pub nontrivial: Vec<u64>,
    pub classes: BTreeMap<String, u64>,
    pub samples: Vec<Value>,
    pub excluded: BTreeMap<String, u64>,
    pub kf_examples: BTreeMap<String, Value>,
    pub violations: Vec<Value>,
    pub notes: Vec<String>,
}

static CURRENT_PATH: Mutex<Option<(String, String)>> = Mutex::new(None);
static CASE_STARTED_MS: std::sync::atomic::AtomicU64 = std::sync::atomic::AtomicU64::new(0);
static CASE_LIMIT_MS: std::sync::atomic::AtomicU64 = std::sync::atomic::AtomicU64::new(0);

fn now_ms() -> u64 {
    use std::sync::OnceLock;
    static T0: OnceLock<Instant> = OnceLock::new();
    T0.get_or_init(Instant::now).elapsed().as_millis() as u64 + 1
}

/// Starts the per-case watchdog of a shard: a case (or a shrink candidate) that does not return
/// within `limit_s` makes the process exit with code 97; the case is in `current_<shard>.json`.
pub fn start_watchdog(out_dir: &str, shard: u32, profile: &str, limit_s: u64) {
    *CURRENT_PATH.lock().unwrap() = Some((format!("{out_dir}/current_{shard}.json"), profile.to_string()));
    CASE_LIMIT_MS.store(limit_s * 1000, std::sync::atomic::Ordering::SeqCst);
    let _ = now_ms();
    std::thread::spawn(|| loop {
        std::thread::sleep(std::time::Duration::from_millis(500));
        let started = CASE_STARTED_MS.load(std::sync::atomic::Ordering::SeqCst);
        let limit = CASE_LIMIT_MS.load(std::sync::atomic::Ordering::SeqCst);
        if started != 0 && limit != 0 && now_ms().saturating_sub(started) > limit {
            eprintln!("VERIF-WATCHDOG: case exceeded {} s", limit / 1000);
            std::process::exit(97);
        }
    });
}

pub fn evaluate<P: Property>(case: &P::Case, obs: &mut Obs) -> Outcome {
    // leave a replayable copy of the case on disk: if the process dies or hangs inside it (also
    // inside a shrink candidate) the driver finds it there
    if let Some((path, profile)) = CURRENT_PATH.lock().unwrap().as_ref() {
        let v = json!({
            "property": P::ID,
            "profile": profile,
            "sig": "process-death-or-hang",
            "detail": "the shard process died or hung while running this case",
            "case": serde_json::to_value(case).unwrap(),
        });
        let _ = std::fs::write(path, v.to_string());
    }
    CASE_STARTED_MS.store(now_ms(), std::sync::atomic::Ordering::SeqCst);
    let r = evaluate_inner::<P>(case, obs);
    CASE_STARTED_MS.store(0, std::sync::atomic::Ordering::SeqCst);
    r
}

fn evaluate_inner<P: Property>(case: &P::Case, obs: &mut Obs) -> Outcome {
    let r = guarded(|| P::run(case, obs));
    let foreign = take_foreign_panics();
    match r {
        Ok(()) => {
            if let Some((loc, msg)) = foreign.into_iter().next() {
                return Err(Failure::new(
                    format!("panic-in-thread@{}", short_loc(&loc)),
                    msg,
                ));
            }
            Ok(())
        }
        Err(e) => Err(e),
    }
}

pub fn run_shard<P: Property>(ctx: &Ctx) -> ShardResult {
    let kf = KnownFindings::load();
    let total = ctx.budget_override.unwrap_or_else(|| P::budget(ctx.tier));
    let per_shard = total.div_ceil(ctx.nshards as u64);
    let families = P::families(ctx.tier).max(1);
    let mut res = ShardResult {
        evaluations: 0,
        cases: 0,
        nontrivial: Vec::new(),
        classes: BTreeMap::new(),
        samples: Vec::new(),
        excluded: BTreeMap::new(),
        kf_examples: BTreeMap::new(),
        violations: Vec::new(),
        notes: Vec::new(),
    };
    std::fs::create_dir_all(&ctx.out_dir).ok();
    let journal_path = format!("{}/journal_{}.txt", ctx.out_dir, ctx.shard);
    let mut journal = std::fs::File::create(&journal_path).expect("journal");
    let shrink_iters = P::shrink_iters(ctx.tier).unwrap_or(ctx.tier.pick(400, 1500));
    let stop_at_first = P::shrink_iters(ctx.tier) == Some(0);

    for i in 0..per_shard {
        let seed = case_seed(ctx.seed, P::ID, ctx.shard, i);
        let family = ((i + ctx.shard as u64) % families as u64) as u32;
        writeln!(journal, "{} {} {} {}", ctx.shard, i, family, seed).ok();
        journal.flush().ok();

        let mut runner = runner_for(seed, shrink_iters);
        let strategy = P::strategy(ctx.tier, family);
        let first = std::cell::Cell::new(true);
        let res_cell = RefCell::new(&mut res);
        let last_failure: RefCell<Option<Failure>> = RefCell::new(None);
        let result = runner.run(&strategy, |case| {
            let is_first = first.replace(false);
            let mut obs = Obs::default();
            let r = evaluate::<P>(&case, &mut obs);
            if is_first {
                let mut res = res_cell.borrow_mut();
                res.cases += 1;
                res.evaluations += obs.evals.max(1);
                for c in &obs.classes {
                    *res.classes.entry(c.to_string()).or_insert(0) += 1;
                }
                for n in obs.notes.drain(..) {
                    if res.notes.len() < 20 {
                        res.notes.push(n);
                    }
                }
                if obs.nontrivial {
                    if obs.keys.is_empty() {
                        let h = fnv64(serde_json::to_string(&case).unwrap().as_bytes());
                        res.nontrivial.push(h);
                    } else {
                        res.nontrivial.extend_from_slice(&obs.keys);
                    }
                    if res.samples.len() < 3 {
                        let v = serde_json::to_value(&case).unwrap();
                        res.samples
                            .push(json!({"case": truncate_json(v, 1500), "classes": obs.classes}));
                    }
                }
            }
            match r {
                Ok(()) => Ok(()),
                Err(f) => {
                    if let Some(id) = P::known(&case, &f) {
                        if kf.is_active(id) {
                            if is_first {
                                let mut res = res_cell.borrow_mut();
                                *res.excluded.entry(id.to_string()).or_insert(0) += 1;
                                if !res.kf_examples.contains_key(id) {
                                    let v = serde_json::to_value(&case).unwrap();
                                    res.kf_examples.insert(
                                        id.to_string(),
                                        json!({"case": truncate_json(v, 1500), "sig": f.sig, "detail": f.detail}),
                                    );
                                }
                            }
                            return Ok(());
                        }
                    }
                    let msg = format!("{} :: {}", f.sig, f.detail);
                    *last_failure.borrow_mut() = Some(f);
                    Err(TestCaseError::fail(msg))
                }
            }
        });
        drop(res_cell);
        match result {
            Ok(()) => {}
            Err(TestError::Fail(reason, case)) => {
                // re-evaluate the shrunk case to get its own signature
                let mut obs = Obs::default();
                let f = match evaluate::<P>(&case, &mut obs) {
                    Err(f) => f,
                    Ok(()) => last_failure
                        .borrow_mut()
                        .take()
                        .unwrap_or(Failure::new("flaky", reason.to_string())),
                };
                let replay = json!({
                    "property": P::ID,
                    "profile": ctx.profile,
                    "sig": f.sig,
                    "detail": f.detail.chars().take(2000).collect::<String>(),
                    "origin": {"verif_seed": ctx.seed, "shard": ctx.shard, "index": i, "family": family, "case_seed": seed},
                    "case": serde_json::to_value(&case).unwrap(),
                });
                let name = format!(
                    "/verif/replays/{}_{}_{:016x}.json",
                    P::ID,
                    ctx.profile,
                    fnv64(replay["case"].to_string().as_bytes())
                );
                std::fs::create_dir_all("/verif/replays").ok();
                std::fs::write(&name, serde_json::to_string_pretty(&replay).unwrap()).ok();
                res.violations
                    .push(json!({"replay": name, "sig": f.sig, "detail": f.detail.chars().take(300).collect::<String>()}));
                // stop this shard after a handful of distinct violations
                if res.violations.len() >= 5 || stop_at_first {
                    break;
                }
            }
            Err(TestError::Abort(reason)) => {
                res.notes.push(format!("proptest abort: {reason}"));
            }
        }
    }
    res
}

pub fn write_shard_result(ctx: &Ctx, id: &str, res: &ShardResult, wall: f64, meta: Value) {
    let v = json!({
        "meta": meta,
        "property": id,
        "shard": ctx.shard,
        "profile": ctx.profile,
        "evaluations": res.evaluations,
        "cases": res.cases,
        "nontrivial": res.nontrivial,
        "classes": res.classes,
        "samples": res.samples,
        "excluded": res.excluded,
        "kf_examples": res.kf_examples,
        "violations": res.violations,
        "notes": res.notes,
        "wall_s": wall,
    });
    let path = format!("{}/shard_{}.json", ctx.out_dir, ctx.shard);
    std::fs::write(path, v.to_string()).expect("write shard result");
}

pub fn shard_main<P: Property>(ctx: &Ctx) {
    let t0 = Instant::now();
    std::fs::create_dir_all(&ctx.out_dir).ok();
    start_watchdog(&ctx.out_dir, ctx.shard, &ctx.profile, P::case_timeout_s(ctx.tier));
    let res = run_shard::<P>(ctx);
    let meta = json!({
        "rule": P::rule(),
        "level": P::level(),
        "floors": P::floors(ctx.tier).iter().map(|(c, p)| json!([c, p])).collect::<Vec<_>>(),
        "assumptions": P::assumptions(),
        "exhaustive": P::exhaustive(ctx.tier),
    });
    write_shard_result(ctx, P::ID, &res, t0.elapsed().as_secs_f64(), meta);
}

/// Replays one case file strictly. Exit code semantics are handled by the caller:
/// returns (verdict, known-id)
pub fn replay_case<P: Property>(case_json: &Value) -> (Outcome, Option<&'static str>) {
    let case: P::Case = match serde_json::from_value(case_json.clone()) {
        Ok(c) => c,
        Err(e) => {
            return (
                Err(Failure::new("harness:bad-replay-file", e.to_string())),
                None,
            )
        }
    };
    let mut obs = Obs::default();
    let r = evaluate::<P>(&case, &mut obs);
    let k = match &r {
        Err(f) => P::known(&case, f),
        Ok(()) => None,
    };
    (r, k)
}

/// Re-runs case (shard, i) of a run in isolation (used by the driver when a shard process died).
pub fn isolate<P: Property>(ctx: &Ctx, index: u64, family: u32) -> (Value, Outcome, Option<&'static str>) {
    let seed = case_seed(ctx.seed, P::ID, ctx.shard, index);
    let case = generate::<P>(ctx.tier, family, seed);
    let v = serde_json::to_value(&case).unwrap();
    let mut obs = Obs::default();
    let r = evaluate::<P>(&case, &mut obs);
    let k = match &r {
        Err(f) => P::known(&case, f),
        Ok(()) => None,
    };
    (v, r, k)
}

// ---------------------------------------------------------------------------------------------
// hook counters

static COUNTER_ACC: [std::sync::atomic::AtomicU64; 7] = [const { std::sync::atomic::AtomicU64::new(0) }; 7];

/// Reads and clears the crate's hook counters; what was read is also added to an accumulator so
/// that a check which wraps another check's `run` (C15) still sees the totals.
pub fn take_counters() -> [u64; 7] {
    let c = lzma_rust2::verif_api::take_counters();
    for (a, v) in COUNTER_ACC.iter().zip(c.iter()) {
        a.fetch_add(*v, std::sync::atomic::Ordering::Relaxed);
    }
    c
}

pub fn take_counter_totals() -> [u64; 7] {
    let _ = take_counters();
    let mut out = [0u64; 7];
    for (o, a) in out.iter_mut().zip(COUNTER_ACC.iter()) {
        *o = a.swap(0, std::sync::atomic::Ordering::Relaxed);
    }
    out
}
