//! XZ / LZIP container helpers: configurations, strategies, encode/decode drivers.

use std::io::{self, Cursor};
use std::num::NonZeroU64;

use lzma_rust2::verif_api::FilterConfig;
use lzma_rust2::{LZIPOptions, LZIPReader, LZIPWriter, XZOptions, XZReader, XZWriter};
use proptest::prelude::*;
use serde::{Deserialize, Serialize};

use crate::codec::*;
use crate::engine::{no_panic, Failure};
use crate::gen::*;
use crate::refimpl::{RefFilter, BCJ_ALIGN};

#[derive(Clone, Debug, Serialize, Deserialize, PartialEq)]
pub enum FilterSpec {
    Delta(u32),
    /// architecture index in refimpl::BCJ_IDS order, start offset
    Bcj(u8, u32),
}

impl FilterSpec {
    pub fn to_ours(&self) -> FilterConfig {
        match *self {
            FilterSpec::Delta(d) => FilterConfig::new_delta(d),
            FilterSpec::Bcj(a, s) => match a % 8 {
                0 => FilterConfig::new_bcj_x86(s),
                1 => FilterConfig::new_bcj_ppc(s),
                2 => FilterConfig::new_bcj_ia64(s),
                3 => FilterConfig::new_bcj_arm(s),
                4 => FilterConfig::new_bcj_arm_thumb(s),
                5 => FilterConfig::new_bcj_sparc(s),
                6 => FilterConfig::new_bcj_arm64(s),
                _ => FilterConfig::new_bcj_risc_v(s),
            },
        }
    }
    pub fn to_ref(&self) -> RefFilter {
        match *self {
            FilterSpec::Delta(d) => RefFilter::Delta(d),
            FilterSpec::Bcj(a, s) => RefFilter::Bcj(a % 8, s),
        }
    }
    pub fn is_bcj(&self) -> bool {
        matches!(self, FilterSpec::Bcj(..))
    }
}

/// Region of the recorded finding KF-BCJW-MULTIWRITE: some BCJWriter in the chain receives two
/// or more non-empty writes (the caller splits the data, or a BCJWriter above it emits its
/// filtered part and its unfiltered tail as two writes).
pub fn bcj_multiwrite_region(filters: &[FilterSpec], plan_multi: bool) -> bool {
    let mut seen_bcj = false;
    for f in filters {
        if f.is_bcj() {
            if seen_bcj || plan_multi {
                return true;
            }
            seen_bcj = true;
        }
    }
    false
}

#[derive(Clone, Debug, Serialize, Deserialize, PartialEq)]
pub struct XzCfg {
    /// 0 none, 1 crc32, 2 crc64, 3 sha256
    pub check: u8,
    pub block: Option<u64>,
    pub filters: Vec<FilterSpec>,
    pub opts: Opts,
}

#[derive(Clone, Debug, Serialize, Deserialize, PartialEq)]
pub struct LzipCfg {
    pub opts: Opts,
    pub member: Option<u64>,
}

pub fn filter_strategy() -> BoxedStrategy<FilterSpec> {
    prop_oneof![
        3 => prop_oneof![Just(1u32), Just(256u32), 1u32..=256].prop_map(FilterSpec::Delta),
        5 => (0u8..8, prop_oneof![3 => Just(0u32), 2 => any::<u32>(), 1 => 0u32..100_000])
            .prop_map(|(a, s)| {
                let al = BCJ_ALIGN[a as usize];
                FilterSpec::Bcj(a, s / al * al)
            }),
    ]
    .boxed()
}

pub fn filters_strategy() -> BoxedStrategy<Vec<FilterSpec>> {
    prop_oneof![
        5 => Just(vec![]),
        4 => proptest::collection::vec(filter_strategy(), 1..=1),
        2 => proptest::collection::vec(filter_strategy(), 2..=3),
    ]
    .boxed()
}

pub fn block_strategy(dict: u32) -> BoxedStrategy<Option<u64>> {
    let d = dict as u64;
    prop_oneof![
        4 => Just(None),
        1 => Just(Some(1u64)),
        2 => (1u64..=d).prop_map(Some),
        2 => Just(Some(d)),
        2 => (d..=d * 4 + 3).prop_map(Some),
        1 => Just(Some(u64::MAX)),
    ]
    .boxed()
}

pub fn xz_cfg_strategy(max_dict: u32) -> BoxedStrategy<XzCfg> {
    (0u8..4, opts_strategy(max_dict, true), filters_strategy())
        .prop_flat_map(|(check, opts, filters)| {
            let b = block_strategy(opts.dict_size);
            (Just(check), b, Just(filters), Just(opts))
        })
        .prop_map(|(check, block, filters, opts)| XzCfg {
            check,
            block,
            filters,
            opts,
        })
        .boxed()
}

/// LZIP dictionary sizes: representable (2^n - k*2^(n-4)) and not.
pub fn lzip_dict_strategy(max: u32) -> BoxedStrategy<u32> {
    let hi = (31 - max.leading_zeros()).max(13);
    prop_oneof![
        3 => Just(4096u32),
        3 => (12u32..=hi, 0u32..8).prop_map(|(n, k)| (1u32 << n) - k * (1u32 << (n - 4))),
        3 => (4096u32..=max),
        2 => (4097u32..=70_000),
    ]
    .prop_map(move |d| d.clamp(4096, max))
    .boxed()
}

pub fn lzip_cfg_strategy(max_dict: u32) -> BoxedStrategy<LzipCfg> {
    (opts_strategy(max_dict, true), lzip_dict_strategy(max_dict))
        .prop_flat_map(|(mut opts, dict)| {
            opts.dict_size = dict;
            let b = block_strategy(dict);
            (Just(opts), b)
        })
        .prop_map(|(opts, member)| LzipCfg { opts, member })
        .boxed()
}

fn io_fail(what: &str, e: io::Error) -> Failure {
    Failure::new(format!("{what}:{:?}", e.kind()), format!("{what}: {e}"))
}

pub fn xz_options(cfg: &XzCfg) -> XZOptions {
    let mut o = XZOptions::with_preset(6);
    o.lzma_options = cfg.opts.to_lzma();
    o.set_check_sum_type(check_type(cfg.check));
    o.set_block_size(cfg.block.and_then(NonZeroU64::new));
    o.filters = cfg.filters.iter().map(|f| f.to_ours()).collect();
    o
}

pub fn encode_xz(data: &[u8], cfg: &XzCfg, plan: &Plan) -> Result<Vec<u8>, Failure> {
    no_panic("xz-encode", || -> Result<Vec<u8>, Failure> {
        let mut w = XZWriter::new(Vec::new(), xz_options(cfg)).map_err(|e| io_fail("xz-new", e))?;
        write_plan(&mut w, data, plan).map_err(|e| io_fail("xz-write", e))?;
        w.finish().map_err(|e| io_fail("xz-finish", e))
    })?
}

pub fn decode_xz(stream: &[u8], multi: bool, sizes: &[u32], cap: usize) -> Result<io::Result<Vec<u8>>, Failure> {
    no_panic("xz-decode", || {
        let mut r = XZReader::new(stream, multi);
        read_all(&mut r, sizes, cap)
    })
}

/// decode and report how much of the source was consumed
pub fn decode_xz_consumed(stream: &[u8], multi: bool, sizes: &[u32], cap: usize) -> Result<(io::Result<Vec<u8>>, usize), Failure> {
    no_panic("xz-decode", || {
        let mut r = XZReader::new(Cursor::new(stream), multi);
        let res = read_all(&mut r, sizes, cap);
        let pos = r.into_inner().position() as usize;
        (res, pos)
    })
}

pub fn lzip_options(cfg: &LzipCfg) -> LZIPOptions {
    let mut o = LZIPOptions::with_preset(6);
    o.lzma_options = cfg.opts.to_lzma();
    o.set_member_size(cfg.member.and_then(NonZeroU64::new));
    o
}

pub fn encode_lzip(data: &[u8], cfg: &LzipCfg, plan: &Plan) -> Result<Vec<u8>, Failure> {
    no_panic("lzip-encode", || -> Result<Vec<u8>, Failure> {
        let mut w = LZIPWriter::new(Vec::new(), lzip_options(cfg));
        write_plan(&mut w, data, plan).map_err(|e| io_fail("lzip-write", e))?;
        w.finish().map_err(|e| io_fail("lzip-finish", e))
    })?
}

pub fn decode_lzip(stream: &[u8], sizes: &[u32], cap: usize) -> Result<io::Result<Vec<u8>>, Failure> {
    no_panic("lzip-decode", || {
        let mut r = LZIPReader::new(stream)?;
        read_all(&mut r, sizes, cap)
    })
}
