//! C14 — case generator for the feature-configuration differential (the cases are executed by
//! the four `featx` builds; the driver compares their transcripts).

use proptest::prelude::*;
use proptest::strategy::ValueTree;
use serde_json::{json, Value};

use crate::codec::*;
use crate::cont::*;
use crate::engine::*;
use crate::gen::*;
use crate::walk::walk_lzma2;

fn hex(b: &[u8]) -> String {
    const H: &[u8; 16] = b"0123456789abcdef";
    let mut s = String::with_capacity(b.len() * 2);
    for &x in b {
        s.push(H[(x >> 4) as usize] as char);
        s.push(H[(x & 15) as usize] as char);
    }
    s
}

fn opts_json(o: &Opts) -> Value {
    json!({"dict_size": o.dict_size, "lc": o.lc, "lp": o.lp, "pb": o.pb, "mode": o.mode, "nice_len": o.nice_len, "mf": o.mf, "depth": o.depth})
}

fn sample<T: std::fmt::Debug>(s: &BoxedStrategy<T>, seed: u64) -> T {
    let mut runner = runner_for(seed, 0);
    s.new_tree(&mut runner).expect("strategy").current()
}

/// shortens the compressed size of an LZMA chunk by k bytes (header field and payload)
fn shorten_chunk(stream: &[u8], pick: usize, k: usize) -> Option<Vec<u8>> {
    let w = walk_lzma2(stream);
    let lz: Vec<_> = w.chunks.iter().filter(|c| c.control >= 0x80 && c.packed > k + 6).collect();
    if lz.is_empty() {
        return None;
    }
    let c = lz[pick % lz.len()];
    let mut m = stream.to_vec();
    let np = c.packed - k - 1;
    m[c.offset + 3] = (np >> 8) as u8;
    m[c.offset + 4] = np as u8;
    let end = c.offset + c.header_len + c.packed;
    m.drain(end - k..end);
    Some(m)
}

pub fn generate(seed: u64, tier: Tier, count: u64, out: &str) -> std::io::Result<Value> {
    use std::io::Write;
    let mut f = std::io::BufWriter::new(std::fs::File::create(out)?);
    let mut classes: std::collections::BTreeMap<&'static str, u64> = Default::default();
    let mut nontrivial = 0u64;
    let mut samples: Vec<Value> = Vec::new();
    let md = tier.pick(1u32 << 20, 1 << 24);
    let general = data_strategy(5, tier.pick(40_000, 200_000));
    let longdist = proptest::collection::vec(
        prop_oneof![
            (2000u32..40_000, any::<u64>()).prop_map(|(len, seed)| Seg::Rand { len, seed }),
            (20u32..600, 128u32..60_000).prop_map(|(len, dist)| Seg::CopyBack { len, dist }),
            (100u32..5000, any::<u64>()).prop_map(|(len, seed)| Seg::Mixed { len, seed }),
        ],
        2..8,
    )
    .prop_map(|segs| Data { segs })
    .boxed();
    let winmove = (300_000u32..400_000, any::<u64>(), data_strategy(2, 20_000))
        .prop_map(|(len, seed, tail)| {
            let mut segs = vec![Seg::Mixed { len, seed }];
            segs.extend(tail.segs);
            Data { segs }
        })
        .boxed();
    for id in 0..count {
        let s = case_seed(seed, "C14", 0, id);
        let mut r = Prng::new(s);
        let mut tags: Vec<&'static str> = Vec::new();
        let case: Value = match id % 10 {
            // encoder cases
            0..=4 => {
                let lzma2 = r.below(4) != 0;
                let opts: Opts = sample(&opts_strategy(md, lzma2), s ^ 1);
                let framing = if !lzma2 { "lzma1" } else { ["lzma2", "xz", "lzip"][r.below(3) as usize] };
                let (data, tag): (Data, &'static str) = match r.below(6) {
                    0 | 1 => (sample(&general, s ^ 2), "general"),
                    2 | 3 => (sample(&longdist, s ^ 2), "long_matches"),
                    4 => {
                        if opts.dict_size <= 65_536 {
                            (sample(&winmove, s ^ 2), "window_move")
                        } else {
                            (sample(&general, s ^ 2), "general")
                        }
                    }
                    _ => (sample(&longdist, s ^ 2), "long_matches"),
                };
                tags.push(tag);
                let bytes = data.expand();
                // every 5th encoder case: the input is made to end at the physical end of the window buffer
                let fit: Option<i64> = if opts.dict_size <= 65_536 && r.below(4) == 0 {
                    tags.push("window_fit");
                    Some([0i64, 0, 0, -1, 1, 2][r.below(6) as usize])
                } else {
                    None
                };
                let bias = if r.below(3) == 0 && !bytes.is_empty() {
                    tags.push("renormalisation");
                    let k = r.below(bytes.len() as u64) as i64;
                    (0x7FFF_FFFFi64 - (opts.dict_size as i64 + 1) - (k + 1)).max(0)
                } else {
                    0
                };
                let unit = if fit.is_some() {
                    0
                } else if r.below(3) == 0 { r.below(opts.dict_size as u64 * 2 + 1) } else { 0 };
                let ws = [1u64 << 30, 4096, 1000, 77][r.below(4) as usize];
                let rs = [65_536u64, 4096, 7, 1][r.below(4) as usize];
                let mut c = json!({"id": id, "kind": "enc", "framing": framing, "opts": opts_json(&opts), "bias": bias, "unit": unit,
                       "write_size": ws, "read_size": rs, "data": hex(&bytes)});
                if let Some(d) = fit {
                    c["fit"] = json!(d);
                }
                c
            }
            // decoder cases on damaged streams
            5..=8 => {
                let opts: Opts = sample(&opts_strategy(1 << 16, true), s ^ 1);
                let which = r.below(4);
                // LZMA2: half of the cases use match-dense data (a short match every ~30 bytes at distances up to
                // 70 000, so that direct distance bits are frequent) for the chunk cut sweep
                let dense = which == 1 && r.below(2) == 0;
                let data = if dense {
                    Data { segs: vec![Seg::Mixed { len: 8000 + r.below(40_000) as u32, seed: s ^ 7 }] }.expand()
                } else {
                    sample(&longdist, s ^ 2).expand()
                };
                let (decoder, stream): (&str, Vec<u8>) = match which {
                    0 => ("lzma1", encode_lzma(&data, &opts, None, &Framing::RawEos, &Plan::All).unwrap_or_default()),
                    1 => ("lzma2", encode_lzma(&data, &opts, None, &Framing::Lzma2 { chunk: None }, &Plan::All).unwrap_or_default()),
                    2 => (
                        "xz",
                        encode_xz(&data, &XzCfg { check: 1 + (id % 3) as u8, block: None, filters: vec![], opts: opts.clone() }, &Plan::All).unwrap_or_default(),
                    ),
                    _ => ("lzip", encode_lzip(&data, &LzipCfg { opts: opts.clone(), member: None }, &Plan::All).unwrap_or_default()),
                };
                let mut m = stream.clone();
                tags.push("error_path");
                // LZMA2: every other case cuts one chunk to 48 different lengths
                let mut cuts_case: Option<Value> = None;
                if decoder == "lzma2" && dense {
                    let w = walk_lzma2(&stream);
                    let lz: Vec<_> = w.chunks.iter().filter(|c| c.control >= 0x80 && c.packed > 16).collect();
                    if !lz.is_empty() {
                        let c = lz[r.below(lz.len() as u64) as usize];
                        // a contiguous run of cut lengths: every decoder state along a stretch of the chunk
                        let span = (c.packed - 7) as u64;
                        let n = span.min(tier.pick(512, 2048));
                        let first = 1 + r.below(span - n + 1);
                        let cuts: Vec<u64> = (first..first + n).collect();
                        tags.push("chunk_cut_sweep");
                        // small reads: a reader that fails drops what it decoded in the failing call, so only
                        // small reads show where exactly two builds stop
                        let rs = [1u64, 1, 3, 7][r.below(4) as usize];
                        cuts_case = Some(json!({"id": id, "kind": "dec", "decoder": "lzma2", "dict": opts.dict_size, "read_size": rs,
                            "chunk": {"off": c.offset, "hdr": c.header_len, "packed": c.packed}, "cuts": cuts, "stream": hex(&stream)}));
                    }
                }
                match r.below(5) {
                    0 | 1 if decoder == "lzma2" => {
                        if let Some(x) = shorten_chunk(&stream, r.below(1000) as usize, 1 + r.below(8) as usize) {
                            m = x;
                            tags.push("direct_bits_at_chunk_end");
                        }
                    }
                    2 if !m.is_empty() => {
                        let n = m.len();
                        m.truncate(r.below(n as u64) as usize);
                    }
                    3 if !m.is_empty() => {
                        for _ in 0..(1 + r.below(3)) {
                            let p = r.below(m.len() as u64) as usize;
                            m[p] ^= 1 << r.below(8);
                        }
                    }
                    _ if !m.is_empty() => {
                        let p = r.below(m.len() as u64) as usize;
                        m[p] = [0u8, 0xFF, 0x80][r.below(3) as usize];
                    }
                    _ => {}
                }
                let rs = [65_536u64, 4096, 7, 1][r.below(4) as usize];
                let multi = r.below(2) == 0;
                if let Some(c) = cuts_case {
                    c
                } else {
                    json!({"id": id, "kind": "dec", "decoder": decoder, "dict": opts.dict_size, "size": u64::MAX,
                           "params": {"lc": opts.lc, "lp": opts.lp, "pb": opts.pb}, "multi": multi,
                           "read_size": rs, "stream": hex(&m)})
                }
            }
            // normalisation differential
            _ => {
                tags.push("normalize");
                let n = r.below(200) as usize;
                let off = match r.below(4) {
                    0 => 0x7FFF_FFFFi64 - 4097,
                    1 => r.below(1 << 31) as i64,
                    2 => 0,
                    _ => 1 + r.below(100_000) as i64,
                };
                let vals: Vec<i64> = (0..n)
                    .map(|_| match r.below(6) {
                        0 => 0,
                        1 => off,
                        2 => off + 1 + r.below(5000) as i64,
                        3 => (off - 1 - r.below(5000) as i64).max(0),
                        4 => 0x7FFF_FFFE,
                        _ => r.below(1 << 31) as i64,
                    })
                    .map(|x| x.clamp(0, 0x7FFF_FFFF))
                    .collect();
                json!({"id": id, "kind": "norm", "values": vals, "offset": off, "skip": r.below(9)})
            }
        };
        for t in &tags {
            *classes.entry(t).or_insert(0) += 1;
        }
        if tags.iter().any(|t| *t != "general") {
            nontrivial += 1;
        }
        if samples.len() < 3 {
            let mut c = case.clone();
            for k in ["data", "stream"] {
                if let Some(s) = c.get(k).and_then(|x| x.as_str()) {
                    let n = s.len();
                    c[k] = json!(format!("{}... ({} hex digits)", &s[..n.min(64)], n));
                }
            }
            samples.push(c);
        }
        writeln!(f, "{case}")?;
    }
    f.flush()?;
    Ok(json!({"cases": count, "nontrivial": nontrivial, "classes": classes, "samples": samples}))
}
