//! C05 — truncation and I/O faults (fault enumeration).

use std::io::{self, ErrorKind, Read, Write};
use std::num::NonZeroU64;

use lzma_rust2::filter::bcj::{BCJReader, BCJWriter};
use lzma_rust2::filter::delta::{DeltaReader, DeltaWriter};
use lzma_rust2::{
    LZIPReader, LZIPWriter, LZMA2Options, LZMA2Reader, LZMA2Writer, LZMAReader, LZMAWriter, XZReader, XZWriter,
};
use proptest::prelude::*;
use serde::{Deserialize, Serialize};

use crate::codec::*;
use crate::cont::*;
use crate::engine::*;
use crate::fio::*;
use crate::gen::*;
use crate::walk::walk_lzip;

#[derive(Clone, Debug, Serialize, Deserialize)]
pub enum Target {
    Lzma { framing: Framing, opts: Opts },
    Xz(XzCfg),
    Lzip(LzipCfg),
    Bcj { arch: u8, start: u32 },
    Delta { dist: u32 },
}

#[derive(Clone, Debug, Serialize, Deserialize)]
pub enum Fault {
    /// every truncation point (sampled above 4 KiB)
    Truncate,
    /// the source delivers no bytes at all
    EmptySource,
    /// error of the given kind at every read-call index the clean run makes (sampled above 400)
    ReadErr { kind: u8, sticky: bool },
    ShortReads { cycle: Vec<u32> },
    Interrupts { at: Vec<u16> },
    /// short reads and, after every `every - 1` calls, an Interrupted: the two legal behaviours meet at every place
    ShortInterrupts { cycle: Vec<u32>, every: u8 },
    // writer side
    ShortWrites { cycle: Vec<u32> },
    WInterrupts { at: Vec<u16> },
    WriteErr { kind: u8 },
    FlushErr { kind: u8 },
}

#[derive(Clone, Debug, Serialize, Deserialize)]
pub struct Case {
    pub data: Data,
    pub target: Target,
    pub fault: Fault,
    pub plan: Plan,
    pub sizes: Vec<u32>,
    /// > 0: the LZMA2 / LZIP stream is read with the multi-threaded reader and this many workers (real threads)
    #[serde(default)]
    pub mt_workers: u8,
    /// XZ reader faults: the file consists of two streams (the two halves of the data) with 0 / 4 / 8 bytes of stream
    /// padding between them and is read with multi-stream decoding enabled
    #[serde(default)]
    pub xz_multi: bool,
}

thread_local! {
    static XZ_MULTI: std::cell::Cell<bool> = const { std::cell::Cell::new(false) };
    static MT_WORKERS: std::cell::Cell<u8> = const { std::cell::Cell::new(0) };
}

pub struct C05;

fn target_strategy(family: u32) -> BoxedStrategy<Target> {
    let md = 1u32 << 16;
    match family % 6 {
        0 => (opts_strategy(md, false), prop_oneof![
            Just(Framing::HeaderEos),
            Just(Framing::HeaderSized),
            Just(Framing::RawEos),
            Just(Framing::RawSized)
        ])
            .prop_map(|(opts, framing)| Target::Lzma { framing, opts })
            .boxed(),
        1 => opts_strategy(md, true)
            .prop_flat_map(|opts| {
                let d = opts.dict_size as u64;
                (prop_oneof![Just(None), (1u64..=d).prop_map(Some)], Just(opts))
            })
            .prop_map(|(chunk, opts)| Target::Lzma {
                framing: Framing::Lzma2 { chunk },
                opts,
            })
            .boxed(),
        2 | 3 => xz_cfg_strategy(md)
            .prop_map(|mut c| {
                c.filters.retain(|f| !f.is_bcj());
                Target::Xz(c)
            })
            .boxed(),
        4 => lzip_cfg_strategy(md).prop_map(Target::Lzip).boxed(),
        _ => prop_oneof![
            (0u8..8, prop_oneof![Just(0u32), 0u32..1000]).prop_map(|(arch, s)| Target::Bcj {
                arch,
                start: s / crate::refimpl::BCJ_ALIGN[arch as usize] * crate::refimpl::BCJ_ALIGN[arch as usize]
            }),
            (1u32..=256).prop_map(|dist| Target::Delta { dist }),
        ]
        .boxed(),
    }
}

fn fault_strategy(reader: bool) -> BoxedStrategy<Fault> {
    let cyc = proptest::collection::vec(prop_oneof![3 => Just(1u32), 2 => 1u32..8, 1 => 1u32..5000], 1..5);
    let at = proptest::collection::vec(0u16..1000, 1..6);
    let cyc2 = proptest::collection::vec(prop_oneof![3 => Just(1u32), 2 => 1u32..8, 1 => 1u32..5000], 1..5);
    if reader {
        prop_oneof![
            4 => Just(Fault::Truncate),
            1 => Just(Fault::EmptySource),
            4 => (0u8..4, any::<bool>()).prop_map(|(kind, sticky)| Fault::ReadErr { kind, sticky }),
            2 => cyc.prop_map(|cycle| Fault::ShortReads { cycle }),
            2 => at.prop_map(|at| Fault::Interrupts { at }),
            2 => (cyc2, 2u8..6).prop_map(|(cycle, every)| Fault::ShortInterrupts { cycle, every }),
        ]
        .boxed()
    } else {
        prop_oneof![
            3 => cyc.prop_map(|cycle| Fault::ShortWrites { cycle }),
            2 => at.prop_map(|at| Fault::WInterrupts { at }),
            4 => (0u8..4).prop_map(|kind| Fault::WriteErr { kind }),
            1 => (0u8..4).prop_map(|kind| Fault::FlushErr { kind }),
        ]
        .boxed()
    }
}

fn bcj_reader<R: Read + 'static>(r: R, arch: u8, start: usize) -> Box<dyn Read> {
    match arch % 8 {
        0 => Box::new(BCJReader::new_x86(r, start)),
        1 => Box::new(BCJReader::new_ppc(r, start)),
        2 => Box::new(BCJReader::new_ia64(r, start)),
        3 => Box::new(BCJReader::new_arm(r, start)),
        4 => Box::new(BCJReader::new_arm_thumb(r, start)),
        5 => Box::new(BCJReader::new_sparc(r, start)),
        6 => Box::new(BCJReader::new_arm64(r, start)),
        _ => Box::new(BCJReader::new_riscv(r, start)),
    }
}

pub fn bcj_writer<W: Write + 'static>(w: W, arch: u8, start: usize) -> BCJWriter<W> {
    match arch % 8 {
        0 => BCJWriter::new_x86(w, start),
        1 => BCJWriter::new_ppc(w, start),
        2 => BCJWriter::new_ia64(w, start),
        3 => BCJWriter::new_arm(w, start),
        4 => BCJWriter::new_arm_thumb(w, start),
        5 => BCJWriter::new_sparc(w, start),
        6 => BCJWriter::new_arm64(w, start),
        _ => BCJWriter::new_riscv(w, start),
    }
}

impl Target {
    /// Drives the matching writer over `sink`; returns Ok(()) or the first error of any call.
    fn write_to<W: Write + 'static>(&self, sink: W, data: &[u8], plan: &Plan, flush_mid: bool) -> io::Result<()> {
        let pieces = plan.pieces(data);
        let mid = pieces.len() / 2;
        match self {
            Target::Lzma { framing: Framing::Lzma2 { chunk }, opts } => {
                let mut l2 = LZMA2Options {
                    lzma_options: opts.to_lzma(),
                    chunk_size: None,
                };
                l2.set_chunk_size(chunk.and_then(NonZeroU64::new));
                let mut w = LZMA2Writer::new(sink, l2);
                for (i, p) in pieces.iter().enumerate() {
                    w.write_all(p)?;
                    if flush_mid && i == mid {
                        w.flush()?;
                    }
                }
                w.finish().map(|_| ())
            }
            Target::Lzma { framing, opts } => {
                let (hdr, eos, size) = match framing {
                    Framing::HeaderEos => (true, true, None),
                    Framing::HeaderSized => (true, false, Some(data.len() as u64)),
                    Framing::RawEos => (false, true, None),
                    _ => (false, false, None),
                };
                let mut w = LZMAWriter::new(sink, &opts.to_lzma(), hdr, eos, size)?;
                for (i, p) in pieces.iter().enumerate() {
                    w.write_all(p)?;
                    if flush_mid && i == mid {
                        w.flush()?;
                    }
                }
                w.finish().map(|_| ())
            }
            Target::Xz(cfg) => {
                let mut w = XZWriter::new(sink, xz_options(cfg))?;
                for (i, p) in pieces.iter().enumerate() {
                    w.write_all(p)?;
                    if flush_mid && i == mid {
                        w.flush()?;
                    }
                }
                w.finish().map(|_| ())
            }
            Target::Lzip(cfg) => {
                let mut w = LZIPWriter::new(sink, lzip_options(cfg));
                for (i, p) in pieces.iter().enumerate() {
                    w.write_all(p)?;
                    if flush_mid && i == mid {
                        w.flush()?;
                    }
                }
                w.finish().map(|_| ())
            }
            Target::Bcj { arch, start } => {
                // single write only (several writes are the recorded finding KF-BCJW-MULTIWRITE)
                let mut w = bcj_writer(sink, *arch, *start as usize);
                w.write_all(data)?;
                w.flush()
            }
            Target::Delta { dist } => {
                let mut w = DeltaWriter::new(sink, *dist as usize);
                for (i, p) in pieces.iter().enumerate() {
                    w.write_all(p)?;
                    if flush_mid && i == mid {
                        w.flush()?;
                    }
                }
                w.flush()
            }
        }
    }

    /// two XZ streams (first / second half of the data) with stream padding in between; returns the file and the
    /// offsets at which a cut leaves a complete shorter file, with the number of bytes that file holds
    fn build_two_streams(&self, data: &[u8]) -> Result<(Vec<u8>, Vec<(usize, usize)>), Failure> {
        let half = data.len() / 2;
        let mut s = self.build_one(&data[..half])?;
        let first = s.len();
        let pad = (data.len() % 3) * 4;
        s.resize(first + pad, 0);
        s.extend_from_slice(&self.build_one(&data[half..])?);
        let bounds = (0..=pad).step_by(4).map(|p| (first + p, half)).collect();
        Ok((s, bounds))
    }

    fn build(&self, data: &[u8]) -> Result<Vec<u8>, Failure> {
        if matches!(self, Target::Xz(_)) && XZ_MULTI.with(|c| c.get()) {
            return self.build_two_streams(data).map(|(s, _)| s);
        }
        self.build_one(data)
    }

    fn build_one(&self, data: &[u8]) -> Result<Vec<u8>, Failure> {
        let (w, out, _) = FaultWriter::new(WriteScript::default());
        let r = no_panic("build", || self.write_to(w, data, &Plan::All, false))?;
        r.map_err(|e| Failure::new("harness:build", e.to_string()))?;
        let v = out.borrow().clone();
        Ok(v)
    }

    fn read_from<R: Read + std::io::Seek + 'static>(&self, src: R, orig_len: usize, sizes: &[u32], cap: usize) -> io::Result<Vec<u8>> {
        #[cfg(not(lzma_rust2_verif_shuttle))]
        {
            let workers = MT_WORKERS.with(|c| c.get()) as u32;
            if workers > 0 {
                match self {
                    Target::Lzma { framing: Framing::Lzma2 { .. }, opts } => {
                        let mut r = lzma_rust2::LZMA2ReaderMT::new(src, opts.dict_size, None, workers);
                        return read_all(&mut r, sizes, cap);
                    }
                    Target::Lzip(_) => {
                        let mut r = lzma_rust2::LZIPReaderMT::new(src, workers)?;
                        return read_all(&mut r, sizes, cap);
                    }
                    _ => {}
                }
            }
        }
        match self {
            Target::Lzma { framing, opts } => match framing {
                Framing::Lzma2 { .. } => {
                    let mut r = LZMA2Reader::new(src, opts.dict_size, None);
                    read_all(&mut r, sizes, cap)
                }
                Framing::HeaderEos | Framing::HeaderSized => {
                    let mut r = LZMAReader::new_mem_limit(src, u32::MAX, None)?;
                    read_all(&mut r, sizes, cap)
                }
                Framing::RawEos => {
                    let mut r = LZMAReader::new(src, u64::MAX, opts.lc, opts.lp, opts.pb, opts.dict_size, None)?;
                    read_all(&mut r, sizes, cap)
                }
                _ => {
                    let mut r = LZMAReader::new_with_props(src, orig_len as u64, opts.props(), opts.dict_size, None)?;
                    read_all(&mut r, sizes, cap)
                }
            },
            Target::Xz(_) => {
                let mut r = XZReader::new(src, XZ_MULTI.with(|c| c.get()));
                read_all(&mut r, sizes, cap)
            }
            Target::Lzip(_) => {
                let mut r = LZIPReader::new(src)?;
                read_all(&mut r, sizes, cap)
            }
            Target::Bcj { arch, start } => {
                let mut r = bcj_reader(src, *arch, *start as usize);
                read_all(&mut r, sizes, cap)
            }
            Target::Delta { dist } => {
                let mut r = DeltaReader::new(src, *dist as usize);
                read_all(&mut r, sizes, cap)
            }
        }
    }

    pub fn read_from_pub(&self, data: Vec<u8>, orig_len: usize, sizes: &[u32], cap: usize) -> io::Result<Vec<u8>> {
        self.read_from(std::io::Cursor::new(data), orig_len, sizes, cap)
    }

    fn framed(&self) -> bool {
        !matches!(self, Target::Bcj { .. } | Target::Delta { .. })
    }

    fn name(&self) -> &'static str {
        match self {
            Target::Lzma { framing: Framing::Lzma2 { .. }, .. } => "lzma2",
            Target::Lzma { framing: Framing::HeaderEos, .. } => "lzma_header_eos",
            Target::Lzma { framing: Framing::HeaderSized, .. } => "lzma_header_sized",
            Target::Lzma { framing: Framing::RawEos, .. } => "lzma_raw_eos",
            Target::Lzma { .. } => "lzma_raw_sized",
            Target::Xz(_) => "xz",
            Target::Lzip(_) => "lzip",
            Target::Bcj { .. } => "bcj",
            Target::Delta { .. } => "delta",
        }
    }
}

fn key(stream: &[u8], kind: u64, pos: usize) -> u64 {
    fnv64(stream) ^ (kind.wrapping_mul(0x9E37_79B9_7F4A_7C15)) ^ ((pos as u64).wrapping_mul(0xD6E8_FEB8_6659_FD93))
}

impl Property for C05 {
    type Case = Case;
    const ID: &'static str = "C05";

    fn families(_tier: Tier) -> u32 {
        12
    }

    fn strategy(tier: Tier, family: u32) -> BoxedStrategy<Case> {
        let reader = family < 8;
        let max = tier.pick(6000u32, 60_000);
        (
            prop_oneof![1 => Just(Data::default()), 1 => data_strategy(1, 40), 8 => data_strategy(3, max)],
            target_strategy(family),
            fault_strategy(reader),
            plan_strategy(),
            read_sizes_strategy(),
            prop_oneof![1 => Just(0u8), 1 => 1u8..=4],
            any::<bool>(),
        )
            .prop_map(move |(data, target, fault, plan, sizes, mt, xz_multi)| {
                let plan = if matches!(target, Target::Bcj { .. }) { Plan::All } else { plan };
                let mt_capable = matches!(target, Target::Lzip(_) | Target::Lzma { framing: Framing::Lzma2 { .. }, .. });
                Case {
                    data,
                    fault,
                    plan,
                    sizes,
                    mt_workers: if reader && mt_capable && !cfg!(lzma_rust2_verif_shuttle) { mt } else { 0 },
                    xz_multi: reader && xz_multi && matches!(target, Target::Xz(_)),
                    target,
                }
            })
            .boxed()
    }

    fn budget(tier: Tier) -> u64 {
        tier.pick(16_000, 160_000)
    }

    fn level() -> &'static str {
        "fault_enumeration"
    }

    fn rule() -> &'static str {
        "case = (small input, reader/writer target, fault family); inside a case the fault points are ENUMERATED: every truncation point of the stream (all of them up to 4 KiB, 256 sampled positions beyond), every read-call / write-call index the clean run makes (all up to 400, sampled beyond) for injected errors of four kinds, short-read/short-write cycles, Interrupted at generated call positions, short reads combined with an Interrupted every 2-5 calls; half of the XZ reader cases use a file of two streams with stream padding, read with multi-stream decoding. Oracles: truncation => Err, or Ok with exactly the original and only if the clean run never needed the missing bytes (cut at an LZIP member boundary or at the end of the first XZ stream / whole words of its padding => exactly the complete members / streams); injected read error that was reached => Err of the same kind; short reads / Interrupted => decoded bytes identical; short writes / Interrupted on the sink => sink bytes identical to the clean run; sink error reached => some write/flush/finish returns Err. Non-trivial = fault position strictly inside the stream / reached; distinct = (stream hash, fault kind, position). evaluations counts fault points."
    }

    fn floors(_tier: Tier) -> Vec<(&'static str, f64)> {
        vec![
            ("truncate", 8.0),
            ("read_err", 8.0),
            ("short_reads", 4.0),
            ("interrupts", 4.0),
            ("short_reads_and_interrupts", 3.0),
            ("xz_two_streams", 3.0),
            ("writer", 20.0),
            ("xz", 10.0),
            ("lzip", 5.0),
            ("lzma2", 5.0),
        ]
    }

    fn exhaustive(_tier: Tier) -> bool {
        false
    }

    fn assumptions() -> Vec<&'static str> {
        vec![
            "truncation points are exhaustive for streams <= 4096 bytes and read/write-call indices for runs with <= 400 calls; larger ones are sampled (counted in class 'sampled')",
            "BCJ/Delta filter streams have no framing, so truncation is not applied to them",
            "MT readers/writers are covered by C09 under the deterministic scheduler, not here",
        ]
    }

    fn known(case: &Case, f: &Failure) -> Option<&'static str> {
        if matches!(case.fault, Fault::EmptySource) && matches!(case.target, Target::Lzip(_)) && f.sig.starts_with("truncation-") {
            return Some("KF-LZIP-EMPTY-SOURCE");
        }
        None
    }

    fn run(case: &Case, obs: &mut Obs) -> Outcome {
        let data = case.data.expand();
        let t = &case.target;
        obs.class(t.name());
        MT_WORKERS.with(|c| c.set(case.mt_workers));
        XZ_MULTI.with(|c| c.set(case.xz_multi));
        obs.class_if(case.mt_workers > 0, "mt_reader");
        obs.class_if(case.xz_multi, "xz_two_streams");
        let cap = data.len() + (1 << 20);
        let kind_of = |k: u8| KINDS[k as usize % 4];
        match &case.fault {
            Fault::Truncate | Fault::EmptySource | Fault::ReadErr { .. } | Fault::ShortReads { .. } | Fault::Interrupts { .. } | Fault::ShortInterrupts { .. } => {
                let stream = t.build(&data)?;
                // clean run
                let (src, stats) = FaultReader::new(&stream, ReadScript::default());
                let clean = no_panic("clean-read", || t.read_from(src, data.len(), &case.sizes, cap))?;
                match &clean {
                    Ok(o) if *o == data => {}
                    Ok(o) => return Err(Failure::new("clean-mismatch", first_diff(o, &data))),
                    Err(e) => return Err(Failure::new("clean-rejected", e.to_string())),
                }
                let consumed = stats.borrow().bytes;
                let calls = stats.borrow().calls;
                match &case.fault {
                    Fault::Truncate | Fault::EmptySource => {
                        let only_empty = matches!(case.fault, Fault::EmptySource);
                        obs.class(if only_empty { "empty_source" } else { "truncate" });
                        if !t.framed() {
                            obs.class("unframed_skipped");
                            return Ok(());
                        }
                        let boundaries: Vec<(usize, usize)> = if let Target::Lzip(_) = t {
                            // (offset of member end, uncompressed bytes up to there)
                            let w = walk_lzip(&stream);
                            let mut acc = 0usize;
                            w.members
                                .iter()
                                .map(|m| {
                                    acc += m.data_size as usize;
                                    (m.offset + m.size, acc)
                                })
                                .collect()
                        } else if case.xz_multi {
                            // a cut at the end of the first stream (plus whole words of padding) leaves a complete file
                            t.build_two_streams(&data)?.1
                        } else {
                            vec![]
                        };
                        // LZMA2: cuts exactly at chunk boundaries are always tried (they must fail: no end marker)
                        let chunk_starts: Vec<usize> = if let Target::Lzma { framing: Framing::Lzma2 { .. }, .. } = t {
                            crate::walk::walk_lzma2(&stream).chunks.iter().map(|c| c.offset).collect()
                        } else {
                            vec![]
                        };
                        let points: Vec<usize> = if stream.len() <= 4096 {
                            (0..stream.len()).collect()
                        } else {
                            obs.class("sampled");
                            let mut r = Prng::new(fnv64(&stream));
                            let mut p: Vec<usize> = (0..64).chain(stream.len() - 64..stream.len()).collect();
                            for _ in 0..128 {
                                p.push(r.below(stream.len() as u64) as usize);
                            }
                            for &c in &chunk_starts {
                                p.push(c.min(stream.len() - 1));
                            }
                            for (b, _) in &boundaries {
                                for d in 0..3usize {
                                    p.push(b.saturating_sub(d).min(stream.len() - 1));
                                    p.push((b + d).min(stream.len() - 1));
                                }
                            }
                            p.sort();
                            p.dedup();
                            p
                        };
                        for &tp in &points {
                            // recorded finding KF-LZIP-EMPTY-SOURCE: only reached through the
                            // dedicated EmptySource fault
                            if tp == 0 && matches!(t, Target::Lzip(_)) && !only_empty {
                                continue;
                            }
                            if only_empty && tp != 0 {
                                break;
                            }
                            obs.evals += 1;
                            obs.keys.push(key(&stream, 1, tp));
                            let (src, _st) = FaultReader::new(
                                &stream,
                                ReadScript {
                                    truncate_at: Some(tp),
                                    ..Default::default()
                                },
                            );
                            let r = no_panic("truncated-read", || t.read_from(src, data.len(), &case.sizes, cap))
                                .map_err(|mut f| {
                                    f.detail = format!("{} truncated at {tp} of {}: {}", t.name(), stream.len(), f.detail);
                                    f
                                })?;
                            match r {
                                Err(e) => {
                                    if e.to_string().contains("VERIF-CAP") {
                                        return Err(Failure::new(
                                            "truncation-unbounded-output",
                                            format!("{} truncated at {tp}/{}: output exceeded input + 1 MiB", t.name(), stream.len()),
                                        ));
                                    }
                                }
                                Ok(o) => {
                                    if let Some(&(_, n)) = boundaries.iter().find(|(b, _)| *b == tp) {
                                        if o == data[..n] {
                                            continue;
                                        }
                                        return Err(Failure::new(
                                            "truncation-at-boundary-wrong-data",
                                            format!("{} cut at member boundary {tp}: got {} bytes, complete members hold {n}", t.name(), o.len()),
                                        ));
                                    }
                                    if o != data {
                                        return Err(Failure::new(
                                            "truncation-wrong-data",
                                            format!("{} truncated at {tp}/{}: Ok with {} bytes instead of {} ({})", t.name(), stream.len(), o.len(), data.len(), first_diff(&o, &data)),
                                        ));
                                    }
                                    if tp < consumed {
                                        return Err(Failure::new(
                                            "truncation-accepted",
                                            format!("{} truncated at {tp}/{} (clean run consumes {consumed}): reported success", t.name(), stream.len()),
                                        ));
                                    }
                                }
                            }
                        }
                        obs.nontrivial = stream.len() > 1;
                        Ok(())
                    }
                    Fault::ReadErr { kind, sticky } => {
                        obs.class("read_err");
                        let kind = kind_of(*kind);
                        let points: Vec<usize> = if calls <= 400 {
                            (0..calls).collect()
                        } else {
                            obs.class("sampled");
                            let mut r = Prng::new(fnv64(&stream) ^ 7);
                            let mut p: Vec<usize> = (0..100).chain(calls - 50..calls).collect();
                            for _ in 0..150 {
                                p.push(r.below(calls as u64) as usize);
                            }
                            p.sort();
                            p.dedup();
                            p
                        };
                        for &j in &points {
                            obs.evals += 1;
                            obs.keys.push(key(&stream, 2 + kind as u64, j));
                            let (src, st) = FaultReader::new(
                                &stream,
                                ReadScript {
                                    err_at: Some((j, kind)),
                                    sticky: *sticky,
                                    ..Default::default()
                                },
                            );
                            let r = no_panic("faulty-read", || t.read_from(src, data.len(), &case.sizes, cap)).map_err(|mut f| {
                                f.detail = format!("{} read error at call {j}: {}", t.name(), f.detail);
                                f
                            })?;
                            let reached = st.borrow().err_reached;
                            match r {
                                Ok(o) => {
                                    if reached {
                                        return Err(Failure::new(
                                            "io-error-swallowed",
                                            format!("{}: {kind:?} injected at read call {j}/{calls} was reached but the reader reported success ({} bytes, {})", t.name(), o.len(), first_diff(&o, &data)),
                                        ));
                                    }
                                    if o != data {
                                        return Err(Failure::new("io-error-unreached-mismatch", first_diff(&o, &data)));
                                    }
                                }
                                Err(e) => {
                                    if !reached {
                                        return Err(Failure::new("io-error-spurious", format!("{}: error without the injected fault being reached: {e}", t.name())));
                                    }
                                    if e.kind() != kind {
                                        return Err(Failure::new(
                                            "io-error-kind-changed",
                                            format!("{}: injected {kind:?} at read call {j}/{calls}, caller saw {:?} ({e})", t.name(), e.kind()),
                                        ));
                                    }
                                }
                            }
                        }
                        obs.nontrivial = calls > 1;
                        Ok(())
                    }
                    Fault::ShortReads { cycle } => {
                        obs.class("short_reads");
                        obs.keys.push(key(&stream, 10, cycle.len()));
                        let (src, _) = FaultReader::new(
                            &stream,
                            ReadScript {
                                max_per_call: cycle.iter().map(|&c| c as usize).collect(),
                                ..Default::default()
                            },
                        );
                        let r = no_panic("short-read", || t.read_from(src, data.len(), &case.sizes, cap))?;
                        obs.nontrivial = stream.len() > 2;
                        match r {
                            Ok(o) if o == data => Ok(()),
                            Ok(o) => Err(Failure::new("short-reads-mismatch", format!("{}: {}", t.name(), first_diff(&o, &data)))),
                            Err(e) => Err(Failure::new("short-reads-rejected", format!("{} with reads of {:?} bytes: {e}", t.name(), cycle))),
                        }
                    }
                    Fault::ShortInterrupts { cycle, every } => {
                        obs.class("short_reads_and_interrupts");
                        obs.keys.push(key(&stream, 12, cycle.len() * 8 + *every as usize));
                        let (src, st) = FaultReader::new(
                            &stream,
                            ReadScript {
                                max_per_call: cycle.iter().map(|&c| c as usize).collect(),
                                interrupt_every: (*every as usize).max(2),
                                ..Default::default()
                            },
                        );
                        let r = no_panic("short-interrupted-read", || t.read_from(src, data.len(), &case.sizes, cap))?;
                        obs.nontrivial = st.borrow().interrupts > 0;
                        match r {
                            Ok(o) if o == data => Ok(()),
                            Ok(o) => Err(Failure::new("short-interrupted-mismatch", format!("{}: reads of {cycle:?} bytes, Interrupted every {every} calls: {}", t.name(), first_diff(&o, &data)))),
                            Err(e) => Err(Failure::new("short-interrupted-rejected", format!("{}: reads of {cycle:?} bytes, Interrupted every {every} calls: {e}", t.name()))),
                        }
                    }
                    Fault::Interrupts { at } => {
                        obs.class("interrupts");
                        let idx: Vec<usize> = at.iter().map(|&a| a as usize * calls.max(1) / 1000).collect();
                        obs.keys.push(key(&stream, 11, idx.iter().sum()));
                        let (src, st) = FaultReader::new(
                            &stream,
                            ReadScript {
                                interrupt_at: idx.clone(),
                                ..Default::default()
                            },
                        );
                        let r = no_panic("interrupted-read", || t.read_from(src, data.len(), &case.sizes, cap))?;
                        obs.nontrivial = st.borrow().interrupts > 0;
                        match r {
                            Ok(o) if o == data => Ok(()),
                            Ok(o) => Err(Failure::new("interrupted-mismatch", format!("{}: Interrupted at calls {idx:?}: {}", t.name(), first_diff(&o, &data)))),
                            Err(e) => Err(Failure::new("interrupted-rejected", format!("{}: Interrupted at read calls {idx:?} of {calls}: {e}", t.name()))),
                        }
                    }
                    _ => unreachable!(),
                }
            }
            wf => {
                obs.class("writer");
                // clean run
                let (w, out, stats) = FaultWriter::new(WriteScript::default());
                let flush_mid = matches!(wf, Fault::FlushErr { .. });
                let r = no_panic("clean-write", || t.write_to(w, &data, &case.plan, flush_mid))?;
                if let Err(e) = r {
                    return Err(Failure::new("clean-write-failed", e.to_string()));
                }
                let clean = out.borrow().clone();
                let calls = stats.borrow().calls;
                match wf {
                    Fault::ShortWrites { cycle } => {
                        obs.class("short_writes");
                        obs.keys.push(key(&clean, 20, cycle.len()));
                        let (w, out, _) = FaultWriter::new(WriteScript {
                            max_per_call: cycle.iter().map(|&c| c as usize).collect(),
                            ..Default::default()
                        });
                        let r = no_panic("short-write", || t.write_to(w, &data, &case.plan, false))?;
                        obs.nontrivial = clean.len() > 2;
                        if let Err(e) = r {
                            return Err(Failure::new("short-writes-rejected", format!("{}: sink accepting {:?} bytes per call: {e}", t.name(), cycle)));
                        }
                        let got = out.borrow();
                        if *got != clean {
                            return Err(Failure::new("short-writes-mismatch", format!("{}: sink accepting {:?} bytes per call: {}", t.name(), cycle, first_diff(&got, &clean))));
                        }
                        Ok(())
                    }
                    Fault::WInterrupts { at } => {
                        obs.class("w_interrupts");
                        let idx: Vec<usize> = at.iter().map(|&a| a as usize * calls.max(1) / 1000).collect();
                        obs.keys.push(key(&clean, 21, idx.iter().sum()));
                        let (w, out, st) = FaultWriter::new(WriteScript {
                            interrupt_at: idx.clone(),
                            ..Default::default()
                        });
                        let r = no_panic("interrupted-write", || t.write_to(w, &data, &case.plan, false))?;
                        obs.nontrivial = st.borrow().interrupts > 0;
                        if let Err(e) = r {
                            return Err(Failure::new("w-interrupted-rejected", format!("{}: Interrupted at write calls {idx:?}: {e}", t.name())));
                        }
                        let got = out.borrow();
                        if *got != clean {
                            return Err(Failure::new("w-interrupted-mismatch", format!("{}: {}", t.name(), first_diff(&got, &clean))));
                        }
                        Ok(())
                    }
                    Fault::WriteErr { kind } => {
                        obs.class("write_err");
                        let kind = kind_of(*kind);
                        let points: Vec<usize> = if calls <= 400 {
                            (0..calls).collect()
                        } else {
                            obs.class("sampled");
                            let mut r = Prng::new(fnv64(&clean) ^ 9);
                            let mut p: Vec<usize> = (0..100).chain(calls - 50..calls).collect();
                            for _ in 0..150 {
                                p.push(r.below(calls as u64) as usize);
                            }
                            p.sort();
                            p.dedup();
                            p
                        };
                        for &j in &points {
                            obs.evals += 1;
                            obs.keys.push(key(&clean, 22 + kind as u64, j));
                            let (w, _out, st) = FaultWriter::new(WriteScript {
                                err_at: Some((j, kind)),
                                ..Default::default()
                            });
                            let r = no_panic("faulty-write", || t.write_to(w, &data, &case.plan, false)).map_err(|mut f| {
                                f.detail = format!("{} sink error at call {j}: {}", t.name(), f.detail);
                                f
                            })?;
                            let reached = st.borrow().err_reached;
                            match r {
                                Ok(()) => {
                                    if reached {
                                        return Err(Failure::new(
                                            "sink-error-swallowed",
                                            format!("{}: sink failed with {kind:?} from write call {j}/{calls} on, every writer call reported success", t.name()),
                                        ));
                                    }
                                }
                                Err(e) => {
                                    if !reached {
                                        return Err(Failure::new("sink-error-spurious", format!("{}: {e}", t.name())));
                                    }
                                    if e.kind() != kind {
                                        return Err(Failure::new(
                                            "sink-error-kind-changed",
                                            format!("{}: sink failed with {kind:?} at call {j}, caller saw {:?} ({e})", t.name(), e.kind()),
                                        ));
                                    }
                                }
                            }
                        }
                        obs.nontrivial = calls > 0;
                        Ok(())
                    }
                    Fault::FlushErr { kind } => {
                        obs.class("flush_err");
                        let kind = kind_of(*kind);
                        obs.keys.push(key(&clean, 30 + kind as u64, 0));
                        let (w, _out, st) = FaultWriter::new(WriteScript {
                            flush_err_at: Some((0, kind)),
                            ..Default::default()
                        });
                        let r = no_panic("flush-fault", || t.write_to(w, &data, &case.plan, true))?;
                        let reached = st.borrow().err_reached;
                        obs.nontrivial = reached;
                        match r {
                            Ok(()) if reached => Err(Failure::new(
                                "sink-flush-error-swallowed",
                                format!("{}: the sink's flush failed with {kind:?}, every writer call reported success", t.name()),
                            )),
                            _ => Ok(()),
                        }
                    }
                    _ => unreachable!(),
                }
            }
        }
    }
}

#[allow(unused)]
fn _unused(_: ErrorKind) {}
