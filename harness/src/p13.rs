//! C13 — compressed output is a pure function of input and options.

use std::io::Write;
use std::num::NonZeroU64;

use lzma_rust2::{LZIPWriter, LZIPWriterMT, LZMA2Options, LZMA2Writer, LZMA2WriterMT};
use proptest::prelude::*;
use serde::{Deserialize, Serialize};

use crate::codec::*;
use crate::cont::*;
use crate::engine::*;
use crate::gen::*;

#[derive(Clone, Debug, Serialize, Deserialize)]
pub enum Kind {
    Lzma { framing: Framing },
    /// LZMA2 / XZ without chunk / block size (partition independence is only promised then)
    Lzma2,
    Xz { check: u8, filters: Vec<FilterSpec> },
    Lzip { member: Option<u64> },
    Lzma2Mt { unit: u64 },
    LzipMt { unit: u64 },
}

#[derive(Clone, Debug, Serialize, Deserialize)]
pub struct Case {
    pub data: Data,
    pub opts: Opts,
    pub preset: Option<Data>,
    /// Some(seed): dictionary and input are related (gen::weave_preset)
    #[serde(default)]
    pub weave: Option<u64>,
    pub kind: Kind,
    /// the executions: one write plan each
    pub plans: Vec<Plan>,
    /// MT: worker count per execution (cycled)
    pub workers: Vec<u32>,
    /// scheduler build only: a serialised mt::Sched
    #[serde(default)]
    pub sched: serde_json::Value,
}

pub struct C13;

fn encode(kind: &Kind, data: &[u8], opts: &Opts, preset: Option<&[u8]>, plan: &Plan, workers: u32) -> Result<Vec<u8>, Failure> {
    match kind {
        Kind::Lzma { framing } => encode_lzma(data, opts, preset, framing, plan),
        Kind::Lzma2 => encode_lzma(data, opts, preset, &Framing::Lzma2 { chunk: None }, plan),
        Kind::Xz { check, filters } => encode_xz(
            data,
            &XzCfg {
                check: *check,
                block: None,
                filters: filters.clone(),
                opts: opts.clone(),
            },
            plan,
        ),
        Kind::Lzip { member } => encode_lzip(
            data,
            &LzipCfg {
                opts: opts.clone(),
                member: *member,
            },
            plan,
        ),
        Kind::Lzma2Mt { unit } => {
            let mut l2 = LZMA2Options {
                lzma_options: opts.to_lzma(),
                chunk_size: None,
            };
            l2.set_chunk_size(NonZeroU64::new(*unit));
            let r = no_panic("lzma2-mt-write", || -> std::io::Result<Vec<u8>> {
                let mut w = LZMA2WriterMT::new(Vec::new(), l2, workers)?;
                write_plan(&mut w, data, plan)?;
                w.finish()
            })?;
            r.map_err(|e| Failure::new("mt-write-failed", e.to_string()))
        }
        Kind::LzipMt { unit } => {
            let cfg = LzipCfg {
                opts: opts.clone(),
                member: Some(*unit),
            };
            let r = no_panic("lzip-mt-write", || -> std::io::Result<Vec<u8>> {
                let mut w = LZIPWriterMT::new(Vec::new(), lzip_options(&cfg), workers)?;
                write_plan(&mut w, data, plan)?;
                w.finish()
            })?;
            r.map_err(|e| Failure::new("mt-write-failed", e.to_string()))
        }
    }
}

/// The MT output must be the concatenation of the single-threaded encodings of the units.
fn mt_model(kind: &Kind, data: &[u8], opts: &Opts) -> Result<Option<Vec<u8>>, Failure> {
    match kind {
        Kind::Lzma2Mt { unit } => {
            let eff = (*unit).max(opts.dict_size as u64) as usize;
            let mut out = Vec::new();
            for u in data.chunks(eff) {
                let mut l2 = LZMA2Options {
                    lzma_options: opts.to_lzma(),
                    chunk_size: None,
                };
                l2.set_chunk_size(NonZeroU64::new(*unit));
                let r = no_panic("st-unit", || -> std::io::Result<Vec<u8>> {
                    let mut w = LZMA2Writer::new(Vec::new(), l2);
                    w.write_all(u)?;
                    w.flush()?;
                    Ok(w.into_inner())
                })?;
                out.extend_from_slice(&r.map_err(|e| Failure::new("harness:st-unit", e.to_string()))?);
            }
            out.push(0);
            Ok(Some(out))
        }
        Kind::LzipMt { unit } => {
            let eff = (*unit).max(opts.dict_size as u64) as usize;
            let mut out = Vec::new();
            let cfg = LzipCfg {
                opts: opts.clone(),
                member: None,
            };
            if data.is_empty() {
                let r = no_panic("st-unit", || LZIPWriter::new(Vec::new(), lzip_options(&cfg)).finish())?;
                return Ok(Some(r.map_err(|e| Failure::new("harness:st-unit", e.to_string()))?));
            }
            for u in data.chunks(eff) {
                let r = no_panic("st-unit", || -> std::io::Result<Vec<u8>> {
                    let mut w = LZIPWriter::new(Vec::new(), lzip_options(&cfg));
                    w.write_all(u)?;
                    w.finish()
                })?;
                out.extend_from_slice(&r.map_err(|e| Failure::new("harness:st-unit", e.to_string()))?);
            }
            Ok(Some(out))
        }
        _ => Ok(None),
    }
}

fn churn_heap(seed: u64) {
    // different heap history for the next execution
    let mut r = Prng::new(seed);
    let mut keep: Vec<Vec<u8>> = Vec::new();
    for _ in 0..(8 + r.below(24)) {
        let n = 1usize << (6 + r.below(16));
        let mut v = vec![0u8; n];
        r.fill(&mut v[..n.min(4096)]);
        if r.below(2) == 0 {
            keep.push(v);
        }
    }
    drop(keep);
}

impl Property for C13 {
    type Case = Case;
    const ID: &'static str = "C13";

    fn families(_tier: Tier) -> u32 {
        10
    }

    fn strategy(tier: Tier, family: u32) -> BoxedStrategy<Case> {
        let shuttle = cfg!(lzma_rust2_verif_shuttle);
        let small = (opts_strategy(16_384, true), prop_oneof![3 => Just(4096u32), 2 => 4096u32..=16_384]).prop_map(|(mut o, d)| {
            o.dict_size = d;
            o
        });
        let mt_kind = |lzip: bool| {
            prop_oneof![Just(1u64), 1u64..40_000, Just(4096u64), Just(8192u64)].prop_map(move |unit| if lzip { Kind::LzipMt { unit } } else { Kind::Lzma2Mt { unit } })
        };
        let (kind, opts): (BoxedStrategy<Kind>, BoxedStrategy<Opts>) = if shuttle {
            (if family % 2 == 0 { mt_kind(false).boxed() } else { mt_kind(true).boxed() }, small.boxed())
        } else {
            match family {
                0 | 1 => (
                    prop_oneof![
                        Just(Framing::HeaderEos),
                        Just(Framing::HeaderSized),
                        Just(Framing::RawEos),
                        Just(Framing::RawSized)
                    ]
                    .prop_map(|framing| Kind::Lzma { framing })
                    .boxed(),
                    opts_strategy(tier.pick(1 << 20, 1 << 24), false),
                ),
                2 => (Just(Kind::Lzma2).boxed(), opts_strategy(tier.pick(1 << 20, 1 << 24), true)),
                3 => (
                    (0u8..4, prop_oneof![3 => Just(vec![]), 1 => (1u32..=256).prop_map(|d| vec![FilterSpec::Delta(d)])])
                        .prop_map(|(check, filters)| Kind::Xz { check, filters })
                        .boxed(),
                    opts_strategy(1 << 20, true),
                ),
                4 => (
                    prop_oneof![Just(None), (1u64..40_000).prop_map(Some)].prop_map(|member| Kind::Lzip { member }).boxed(),
                    small.boxed(),
                ),
                5 | 6 => (mt_kind(false).boxed(), small.boxed()),
                7 => (mt_kind(true).boxed(), small.boxed()),
                // long pricing passes (normal mode, nice_len below the maximum): look-ahead gating
                _ => (
                    prop_oneof![
                        2 => prop_oneof![Just(Framing::HeaderEos), Just(Framing::RawSized)].prop_map(|framing| Kind::Lzma { framing }),
                        1 => Just(Kind::Lzma2),
                        1 => (0u8..4).prop_map(|check| Kind::Xz { check, filters: vec![] }),
                        1 => Just(Kind::Lzip { member: None }),
                    ]
                    .boxed(),
                    (opts_strategy(1 << 20, true), 8u32..=272, prop_oneof![Just(65_536u32), Just(1u32 << 20), 4096u32..(1 << 20)])
                        .prop_map(|(mut o, nice, d)| {
                            o.mode = 1;
                            o.nice_len = nice;
                            o.dict_size = d;
                            o
                        })
                        .boxed(),
                ),
            }
        };
        let preset = prop_oneof![2 => Just(None), 1 => data_strategy(2, 3000).prop_map(Some)];
        let data = if !shuttle && family >= 8 {
            long_pass_strategy(tier.pick(12_000, 40_000))
        } else {
            prop_oneof![1 => Just(Data::default()), 9 => data_strategy(5, tier.pick(30_000, 200_000))].boxed()
        };
        #[cfg(lzma_rust2_verif_shuttle)]
        let sched = crate::mt::sched_strategy().prop_map(|s| serde_json::to_value(s).unwrap()).boxed();
        #[cfg(not(lzma_rust2_verif_shuttle))]
        let sched = Just(serde_json::Value::Null).boxed();
        (
            data,
            opts,
            preset,
            kind,
            proptest::collection::vec(plan_strategy(), 2..4),
            proptest::collection::vec(1u32..=6, 2..4),
            sched,
        )
            .prop_map(|(data, opts, preset, kind, plans, workers, sched)| {
                // preset dictionaries: only where the writer supports them
                let preset = match &kind {
                    Kind::Lzma { framing: Framing::RawEos | Framing::RawSized } | Kind::Lzma2 => preset,
                    _ => None,
                };
                let weave = if preset.is_some() && data.total_len() % 3 != 0 { Some(data.total_len() as u64 ^ 0x5EED) } else { None };
                Case {
                    data,
                    opts,
                    preset,
                    weave,
                    kind,
                    plans,
                    workers,
                    sched,
                }
            })
            .boxed()
    }

    fn budget(tier: Tier) -> u64 {
        if cfg!(lzma_rust2_verif_shuttle) {
            tier.pick(1200, 6000)
        } else {
            tier.pick(12_000, 40_000)
        }
    }

    fn shrink_iters(_tier: Tier) -> Option<u32> {
        if cfg!(lzma_rust2_verif_shuttle) {
            Some(0)
        } else {
            None
        }
    }

    fn rule() -> &'static str {
        "metamorphic relation: the same (data, options) compressed in 2-4 executions must give byte-identical output. Executions differ in: write partition (LZMAWriter, LZIPWriter, MT writers; LZMA2Writer / XZWriter only without chunk / block size), heap history plus allocator junk fill (fresh memory 0xA5, freed memory 0x5A, so a table that is not zero-initialised shows), worker count 1-6 for the MT writers, and - in the scheduler build - the thread schedule (shuttle random / PCT / round robin, 20 schedules per case). MT writers additionally: output == concatenation of the single-threaded encodings of the fixed-size units (+ LZMA2 terminator). Non-trivial = output shorter than the input (matches were coded, so table contents matter) and at least two executions that really differ. Distinct = hash of the case recipe."
    }

    fn floors(_tier: Tier) -> Vec<(&'static str, f64)> {
        // one list for all three builds of this check (the driver merges their shards)
        vec![("partitions_differ", 25.0), ("mt", 25.0), ("lzma1", 8.0), ("junk", 40.0), ("multi_unit", 8.0)]
    }

    fn run(case: &Case, obs: &mut Obs) -> Outcome {
        let mut data = case.data.expand();
        let mut preset = case.preset.as_ref().map(|p| p.expand()).filter(|p| !p.is_empty());
        if let (Some(seed), Some(p)) = (case.weave, preset.as_ref()) {
            let (d2, i2) = weave_preset(p, &data, seed);
            obs.class_if(d2.len() > p.len(), "preset_related");
            preset = Some(d2);
            data = i2;
        }
        let is_mt = matches!(case.kind, Kind::Lzma2Mt { .. } | Kind::LzipMt { .. });
        obs.class_if(is_mt, "mt");
        obs.class_if(matches!(case.kind, Kind::Lzma { .. }), "lzma1");
        let multi: Vec<bool> = case.plans.iter().map(|p| p.is_multi(data.len())).collect();
        let pieces: Vec<usize> = case.plans.iter().map(|p| p.pieces(&data).len()).collect();
        let differ = pieces.iter().any(|&n| n != pieces[0]) || multi.iter().any(|&m| m);
        obs.class_if(differ, "partitions_differ");
        obs.class_if(
            !is_mt && case.opts.mode == 1 && case.opts.nice_len < 273 && case.data.segs.iter().any(|s| matches!(s, Seg::Tiles { len, .. } if *len >= 4000)),
            "long_pricing_pass",
        );
        if let Kind::Lzma2Mt { unit } | Kind::LzipMt { unit } = &case.kind {
            let eff = (*unit).max(case.opts.dict_size as u64) as usize;
            obs.class_if(data.len() > eff, "multi_unit");
        }

        #[cfg(lzma_rust2_verif_shuttle)]
        {
            use std::sync::{Arc, Mutex};
            let model = mt_model(&case.kind, &data, &case.opts)?.expect("mt kind");
            let outputs: Arc<Mutex<Vec<Vec<u8>>>> = Arc::new(Mutex::new(Vec::new()));
            let o2 = outputs.clone();
            let kind = case.kind.clone();
            let opts = case.opts.clone();
            let plans = case.plans.clone();
            let workers = case.workers.clone();
            let d2 = Arc::new(data.clone());
            let counter = Arc::new(std::sync::atomic::AtomicUsize::new(0));
            let sched: crate::mt::Sched = serde_json::from_value(case.sched.clone()).unwrap_or(crate::mt::Sched::Random { seed: 1 });
            let info = crate::mt::run_schedules(&sched, 20, 3_000_000, move || {
                let i = counter.fetch_add(1, std::sync::atomic::Ordering::SeqCst);
                let plan = &plans[i % plans.len()];
                let w = workers[i % workers.len()];
                match encode(&kind, &d2, &opts, None, plan, w) {
                    Ok(s) => o2.lock().unwrap().push(s),
                    Err(f) => panic!("VERIF:{}:: {}", f.sig, f.detail),
                }
            })?;
            obs.evals = info.iterations as u64;
            let outs = outputs.lock().unwrap();
            for (i, o) in outs.iter().enumerate() {
                if *o != model {
                    return Err(Failure::new(
                        "mt-output-differs-from-unit-model",
                        format!("schedule {i} (workers {}, plan {:?}): {}", case.workers[i % case.workers.len()], case.plans[i % case.plans.len()], first_diff(o, &model)),
                    ));
                }
            }
            obs.nontrivial = model.len() < data.len() && outs.len() >= 2;
            return Ok(());
        }

        #[cfg(not(lzma_rust2_verif_shuttle))]
        {
            let mut reference: Option<Vec<u8>> = None;
            obs.class("junk");
            for (i, plan) in case.plans.iter().enumerate() {
                // LZMA2 / XZ promise partition independence only without chunk / block size,
                // which is how these kinds are configured here
                churn_heap(i as u64 * 77 + data.len() as u64);
                crate::alloc::set_junk(i % 2 == 1);
                let w = case.workers[i % case.workers.len()];
                let r = encode(&case.kind, &data, &case.opts, preset.as_deref(), plan, w);
                crate::alloc::set_junk(false);
                let out = r?;
                obs.evals += 1;
                match &reference {
                    None => reference = Some(out),
                    Some(first) => {
                        if *first != out {
                            return Err(Failure::new(
                                "output-not-deterministic",
                                format!(
                                    "{:?}: execution {i} (plan {:?}, workers {w}, junk fill {}) differs from execution 0 (plan {:?}): {}",
                                    case.kind,
                                    plan,
                                    i % 2 == 1,
                                    case.plans[0],
                                    first_diff(&out, first)
                                ),
                            ));
                        }
                    }
                }
            }
            let first = reference.unwrap();
            if let Some(model) = mt_model(&case.kind, &data, &case.opts)? {
                if model != first {
                    return Err(Failure::new("mt-output-differs-from-unit-model", first_diff(&first, &model)));
                }
            }
            obs.nontrivial = first.len() < data.len() && (differ || is_mt);
            Ok(())
        }
    }
}
