//! C15 — the unsafe fast paths stay inside their buffers.
//!
//! The C01 encoder workloads and the C06 hostile decoder inputs (plus LZMA2 streams whose chunks
//! were shortened so that direct-bit decoding runs into the end of the chunk buffer) are executed
//! with two sensors for an out-of-bounds access:
//!  * cfg-gated shadow assertions in the crate restate, in safe code, the bounds precondition of
//!    each unsafe block right before it runs (panic message `VERIF-SHADOW:`);
//!  * the harness's allocator places every allocation of 4 KiB or more directly before (or after)
//!    an inaccessible page, so that a read past the end (before the start) of the window buffer,
//!    the hash / chain / tree tables or the chunk buffer kills the process; the driver then replays
//!    the case that was running.

use std::io::Read;

use lzma_rust2::LZMA2Reader;
use proptest::prelude::*;
use serde::{Deserialize, Serialize};

use crate::codec::*;
use crate::engine::*;
use crate::gen::*;
use crate::p01::C01;
use crate::p06::C06;
use crate::walk::walk_lzma2;

#[derive(Clone, Debug, Serialize, Deserialize)]
pub enum Work {
    Enc(crate::p01::Case),
    Dec(crate::p06::Case),
    /// valid LZMA2 stream, one LZMA chunk made `cut` bytes shorter (header and payload)
    ShortChunk { data: Data, opts: Opts, pick: u16, cut: u8, read_size: u32 },
    /// position normalisation on a sub-slice with arbitrary alignment
    Norm { len: u16, skip: u8, offset: i32, seed: u64 },
}

#[derive(Clone, Debug, Serialize, Deserialize)]
pub struct Case {
    pub work: Work,
    /// 0 = plain heap, 1 = inaccessible page after every big allocation, 2 = before
    pub fence: u8,
}

pub struct C15;

fn long_matches() -> BoxedStrategy<Data> {
    proptest::collection::vec(
        prop_oneof![
            (2000u32..40_000, any::<u64>()).prop_map(|(len, seed)| Seg::Rand { len, seed }),
            (20u32..600, 128u32..60_000).prop_map(|(len, dist)| Seg::CopyBack { len, dist }),
            (100u32..5000, any::<u64>()).prop_map(|(len, seed)| Seg::Mixed { len, seed }),
        ],
        2..8,
    )
    .prop_map(|segs| Data { segs })
    .boxed()
}

impl Property for C15 {
    type Case = Case;
    const ID: &'static str = "C15";

    fn families(_tier: Tier) -> u32 {
        8
    }

    fn strategy(tier: Tier, family: u32) -> BoxedStrategy<Case> {
        let work: BoxedStrategy<Work> = match family {
            0 => (0..C01::families(tier)).prop_flat_map(move |k| C01::strategy(tier, k)).prop_map(Work::Enc).boxed(),
            // input ending at the physical end of the window buffer
            1 => (20u32..=21).prop_flat_map(move |k| C01::strategy(tier, k)).prop_map(Work::Enc).boxed(),
            // window moves and renormalisation inside the stream
            2 => (13u32..=18).prop_flat_map(move |k| C01::strategy(tier, k)).prop_map(Work::Enc).boxed(),
            3 | 4 => (0..C06::families(tier))
                .prop_flat_map(move |k| C06::strategy(tier, k))
                .prop_map(|mut c| {
                    // thousands of empty units mean thousands of page mappings under the fence: keep the count moderate
                    if let crate::p06::Input::Mutated { ops, .. } = &mut c.input {
                        for op in ops.iter_mut() {
                            if let crate::p06::MutOp::AppendEmpty { n } = op {
                                *n %= 1500;
                            }
                        }
                    }
                    Work::Dec(c)
                })
                .boxed(),
            5 | 6 => (long_matches(), opts_strategy(1 << 16, true), any::<u16>(), 1u8..=12, prop_oneof![Just(65_536u32), Just(4096), Just(7), Just(1)])
                .prop_map(|(data, opts, pick, cut, read_size)| Work::ShortChunk { data, opts, pick, cut, read_size })
                .boxed(),
            _ => (0u16..3000, 0u8..17, prop_oneof![Just(0), Just(1), Just(0x7FFF_FFFF - 4097), 0i32..i32::MAX], any::<u64>())
                .prop_map(|(len, skip, offset, seed)| Work::Norm { len, skip, offset, seed })
                .boxed(),
        };
        (work, prop_oneof![1 => Just(0u8), 3 => Just(1u8), 1 => Just(2u8)]).prop_map(|(work, fence)| Case { work, fence }).boxed()
    }

    fn budget(tier: Tier) -> u64 {
        tier.pick(8000, 30_000)
    }

    fn case_timeout_s(_tier: Tier) -> u64 {
        60
    }

    fn rule() -> &'static str {
        "case = (workload, allocator mode). Workloads: a C01 encoder case (all 20 generator families: matches touching both ends of the window, window moves, position bias so that SIMD renormalisation runs, finishing with a few bytes left; followed by decoding), a C06 hostile decoder case (all decoders, structural mutations), a valid LZMA2 stream with one LZMA chunk shortened by 1-12 bytes (the range decoder then runs direct bits at and beyond the end of the chunk buffer, which ends at the end of its allocation), and position normalisation on sub-slices of every alignment. Allocator modes: plain, inaccessible page directly after every allocation >= 4 KiB (byte-exact for the u8 buffers), inaccessible page directly before. Oracle: no shadow assertion (safe restatement of each unsafe block's bounds precondition, compiled with --cfg lzma_rust2_verif) fires and the process does not die (SIGSEGV on a guard page is reported by the driver from the case file written before the evaluation). Functional results are ignored here (C01/C06 judge them). Non-trivial = a hook counter shows that an unsafe access was within 8 bytes of its buffer end (near_end_unsafe / near_end_direct_bits), a window move or SIMD normalisation ran, or the decoder got past the header stage. Distinct = hash of the case recipe."
    }

    fn floors(_tier: Tier) -> Vec<(&'static str, f64)> {
        vec![("enc", 25.0), ("dec", 15.0), ("short_chunk", 15.0), ("fence_after", 40.0), ("fence_before", 10.0), ("near_end_unsafe", 4.0), ("near_end_direct_bits", 1.0), ("normalised", 4.0), ("window_moved", 5.0)]
    }

    fn assumptions() -> Vec<&'static str> {
        vec![
            "x86_64 only: the aarch64 assembly and NEON code are not compiled",
            "guard pages see accesses that leave an allocation of 4 KiB or more by less than a page beyond its end (or before its start); smaller strays inside the same mapping are seen only by the shadow assertions",
        ]
    }

    fn run(case: &Case, obs: &mut Obs) -> Outcome {
        let _ = take_counter_totals();
        crate::alloc::set_fence(case.fence);
        obs.class_if(case.fence == 1, "fence_after");
        obs.class_if(case.fence == 2, "fence_before");
        let mut inner = Obs::default();
        let r: Outcome = match &case.work {
            Work::Enc(c) => {
                obs.class("enc");
                guarded(|| C01::run(c, &mut inner))
            }
            Work::Dec(c) => {
                obs.class("dec");
                guarded(|| C06::run(c, &mut inner))
            }
            Work::ShortChunk { data, opts, pick, cut, read_size } => {
                obs.class("short_chunk");
                guarded(|| {
                    let bytes = data.expand();
                    let stream = encode_lzma(&bytes, opts, None, &Framing::Lzma2 { chunk: None }, &Plan::All)?;
                    let w = walk_lzma2(&stream);
                    let k = *cut as usize;
                    let lz: Vec<_> = w.chunks.iter().filter(|c| c.control >= 0x80 && c.packed > k + 6).collect();
                    if lz.is_empty() {
                        return Ok(());
                    }
                    let c = lz[*pick as usize * lz.len() >> 16];
                    let mut m = stream.clone();
                    let np = c.packed - k - 1;
                    m[c.offset + 3] = (np >> 8) as u8;
                    m[c.offset + 4] = np as u8;
                    let end = c.offset + c.header_len + c.packed;
                    m.drain(end - k..end);
                    inner.nontrivial = true;
                    let mut r = LZMA2Reader::new(m.as_slice(), opts.dict_size, None);
                    let mut buf = vec![0u8; *read_size as usize];
                    let mut total = 0usize;
                    loop {
                        match r.read(&mut buf) {
                            Ok(0) | Err(_) => break,
                            Ok(n) => {
                                total += n;
                                if total > bytes.len() + (1 << 20) {
                                    break;
                                }
                            }
                        }
                    }
                    Ok(())
                })
            }
            Work::Norm { len, skip, offset, seed } => {
                obs.class("norm");
                guarded(|| {
                    let mut r = Prng::new(*seed);
                    let n = *len as usize + *skip as usize;
                    let mut v: Vec<i32> = (0..n)
                        .map(|_| match r.below(4) {
                            0 => 0,
                            1 => *offset,
                            2 => 0x7FFF_FFFF,
                            _ => r.below(1 << 31) as i32,
                        })
                        .collect();
                    let orig = v.clone();
                    let expect: Vec<i32> = v.iter().map(|&p| if p > *offset { p - *offset } else { 0 }).collect();
                    let s = (*skip as usize).min(n);
                    lzma_rust2::verif_api::normalize_dispatch(&mut v[s..], *offset);
                    inner.nontrivial = n - s >= 8;
                    if v[s..] != expect[s..] {
                        return Err(Failure::new("shadow@normalize", "VERIF-SHADOW: SIMD normalisation differs from max(p - offset, 0)".to_string()));
                    }
                    if v[..s] != orig[..s] {
                        return Err(Failure::new("shadow@normalize", "VERIF-SHADOW: normalisation wrote outside the slice it was given".to_string()));
                    }
                    Ok(())
                })
            }
        };
        crate::alloc::set_fence(0);
        lzma_rust2::verif_api::set_lz_pos_bias(0);
        let counters = take_counter_totals();
        obs.class_if(counters[0] > 0, "window_moved");
        obs.class_if(counters[1] > 0, "normalised");
        obs.class_if(counters[2] > 0, "near_end_unsafe");
        obs.class_if(counters[3] > 0, "near_end_direct_bits");
        obs.nontrivial = counters[0] + counters[1] + counters[2] + counters[3] > 0 || inner.nontrivial;
        match r {
            Err(f) if f.sig.starts_with("shadow@") => Err(f),
            Err(_) => {
                // a functional failure of the underlying workload is C01's / C06's to report
                obs.class("functional_failure_ignored");
                Ok(())
            }
            Ok(()) => Ok(()),
        }
    }
}
