//! C17 — memory estimators are sound and useful, memory limits are enforced.

use std::io::{Read, Write};

use lzma_rust2::{lzma2_get_memory_usage, lzma_get_memory_usage, lzma_get_memory_usage_by_props, LZMA2Options, LZMA2Reader, LZMA2Writer, LZMAReader, LZMAWriter};
use proptest::prelude::*;
use serde::{Deserialize, Serialize};

use crate::codec::*;
use crate::engine::*;
use crate::gen::*;

#[derive(Clone, Debug, Serialize, Deserialize)]
pub enum Kind {
    /// LZMA2Writer (what LZMAOptions::get_memory_usage documents)
    EncLzma2,
    /// LZMAWriter
    EncLzma1,
    /// LZMA2Writer with a chunk size of `unit_pct` percent of the input (>= 2 independent units)
    EncLzma2Units { unit_pct: u8 },
    DecLzma1,
    DecLzma2,
    /// .lzma header x memory limit around the need: 0 = need-1, 1 = need, 2 = need+1, 3 = 0, 4 = u32::MAX
    Limit(u8),
    /// as Limit, but the header declares a size (size_sel: 0 = the data length, 1 = 1, 2 = dict - 1, 3 = dict + 1,
    /// 4 = 0) and a preset dictionary may be supplied; which 5 = what the estimator says for a window of
    /// min(size, dict), 6 = halfway between that and the need. An accepted reader is read to the end and must
    /// stay inside the limit.
    LimitSized { which: u8, size_sel: u8, preset: bool },
    /// estimator only, no instantiation (large dictionaries)
    EstimateOnly,
}

#[derive(Clone, Debug, Serialize, Deserialize)]
pub struct Case {
    pub opts: Opts,
    pub kind: Kind,
    pub seed: u64,
}

pub struct C17;

const FACTOR: u64 = 3;
const SLACK: u64 = 512 << 10;

struct Sink;
impl Write for Sink {
    fn write(&mut self, b: &[u8]) -> std::io::Result<usize> {
        Ok(b.len())
    }
    fn flush(&mut self) -> std::io::Result<()> {
        Ok(())
    }
}

/// Closed form of what the encoder allocates, read off LZEncoder::new / HC4::new / BT4::new /
/// Hash234::new / LZMAEncoder::new (bytes).
fn encoder_closed_form(o: &Opts, lzma2: bool) -> u64 {
    let dict = o.dict_size as u64;
    let extra_before = if lzma2 { (65_536u64).saturating_sub(dict).max(if o.mode == 0 { 1 } else { 4096 }) } else if o.mode == 0 { 1 } else { 4096 };
    let extra_after = if o.mode == 0 { 272 } else { 4096 };
    let reserve = (dict / 2 + (256 << 10)).min(512 << 20);
    let buf = dict + extra_before + extra_after + 273 + reserve;
    let mut h = dict.saturating_sub(1);
    h |= h >> 1;
    h |= h >> 2;
    h |= h >> 4;
    h |= h >> 8;
    h >>= 1;
    h |= 0xFFFF;
    if h > (1 << 24) {
        h >>= 1;
    }
    let hash4 = h + 1;
    let hashes = (1024 + 65_536 + hash4) * 4;
    let mf = if o.mf == 0 { (dict + 1) * 4 } else { (dict + 1) * 8 };
    let literal = (0x300u64 * 2) << (o.lc + o.lp);
    let fixed = if o.mode == 0 { 100 << 10 } else { 350 << 10 } + if lzma2 { 64 << 10 } else { 0 };
    buf + hashes + mf + literal + fixed
}

fn kib(x: u32) -> u64 {
    x as u64 * 1024
}

impl Property for C17 {
    type Case = Case;
    const ID: &'static str = "C17";

    fn families(_tier: Tier) -> u32 {
        6
    }

    fn strategy(tier: Tier, family: u32) -> BoxedStrategy<Case> {
        let inst_max = tier.pick(16u32 << 20, 128 << 20);
        let kind = match family {
            0 => prop_oneof![3 => Just(Kind::EncLzma2), 1 => (5u8..60).prop_map(|unit_pct| Kind::EncLzma2Units { unit_pct })].boxed(),
            1 => Just(Kind::EncLzma1).boxed(),
            2 => prop_oneof![Just(Kind::DecLzma1), Just(Kind::DecLzma2)].boxed(),
            3 => prop_oneof![
                (0u8..5).prop_map(Kind::Limit),
                (0u8..7, 0u8..5, any::<bool>()).prop_map(|(which, size_sel, preset)| Kind::LimitSized { which, size_sel, preset }),
            ]
            .boxed(),
            _ => Just(Kind::EstimateOnly).boxed(),
        };
        let dict = if family >= 4 {
            prop_oneof![
                3 => (12u32..=29).prop_map(|n| 1u32 << n),
                2 => (12u32..=28).prop_map(|n| (1u32 << n) + (1u32 << (n - 1))),
                3 => 4096u32..=(768 << 20),
                1 => Just(768u32 << 20),
            ]
            .boxed()
        } else {
            prop_oneof![
                3 => Just(4096u32),
                3 => 4096u32..=(1 << 20),
                3 => (12u32..=(31 - inst_max.leading_zeros())).prop_map(|n| 1u32 << n),
                2 => 4096u32..=inst_max,
            ]
            .boxed()
        };
        (opts_strategy(1 << 20, false), dict, kind, any::<u64>())
            .prop_map(|(mut opts, d, kind, seed)| {
                opts.dict_size = d;
                if matches!(kind, Kind::EncLzma2Units { .. }) {
                    opts.dict_size = opts.dict_size.min(1 << 20);
                }
                if matches!(kind, Kind::EncLzma2 | Kind::EncLzma2Units { .. } | Kind::DecLzma2) && opts.lc + opts.lp > 4 {
                    opts.lc = 3;
                    opts.lp = 0;
                }
                Case { opts, kind, seed }
            })
            .boxed()
    }

    fn budget(tier: Tier) -> u64 {
        tier.pick(4000, 12_000)
    }

    fn rule() -> &'static str {
        "encoder: (dict_size 4 KiB - 16 MiB quick / 128 MiB thorough, lc/lp, mode, match finder, nice_len) -> construct LZMA2Writer / LZMAWriter over a sink that allocates nothing, write up to 1 MiB, finish, all under the accounting allocator: peak_bytes <= estimate_KiB*1024 (sound) and estimate_KiB*1024 <= 3*peak_bytes + 512 KiB (useful). Decoder: lzma_get_memory_usage(_by_props) and lzma2_get_memory_usage against the measured peak of LZMAReader / LZMA2Reader decoding a stream, same two inequalities. Limit: LZMAReader::new_mem_limit must fail with OutOfMemory iff limit_kb < need, having allocated < 64 KiB. Estimator-only cases (dictionaries up to 768 MiB, not instantiated): no panic / overflow and agreement within the same factor with the harness's closed form of the allocations. Non-trivial = every case (each is a distinct parameter vector); distinct = hash of the case."
    }

    fn floors(_tier: Tier) -> Vec<(&'static str, f64)> {
        vec![("encoder", 25.0), ("decoder", 10.0), ("limit", 5.0), ("limit_sized", 5.0), ("limit_sized_preset", 2.0), ("estimate_only", 25.0), ("bt4", 20.0), ("big_dict", 10.0)]
    }

    fn assumptions() -> Vec<&'static str> {
        vec![
            "'small constant factor' is fixed at 3 (+ 512 KiB); measured ratios are reported in the notes of the evidence",
            "only Rust allocations of the crate are measured (sources and sinks of the harness allocate nothing during the measurement)",
        ]
    }

    fn known(case: &Case, f: &Failure) -> Option<&'static str> {
        // two encoders are alive while LZMA2Writer starts a new independent unit
        if matches!(case.kind, Kind::EncLzma2Units { .. }) && f.sig == "encoder-estimate-unsound" && f.detail.contains("within twice the estimate") {
            return Some("KF-LZMA2-UNIT-DOUBLE-ENCODER");
        }
        None
    }

    fn run(case: &Case, obs: &mut Obs) -> Outcome {
        let o = &case.opts;
        obs.nontrivial = true;
        obs.class_if(o.mf == 1, "bt4");
        obs.class_if(o.dict_size >= (4 << 20), "big_dict");
        let lz = o.to_lzma();
        match &case.kind {
            Kind::EncLzma2 | Kind::EncLzma1 | Kind::EncLzma2Units { .. } => {
                obs.class("encoder");
                let lzma2 = !matches!(case.kind, Kind::EncLzma1);
                let unit_pct = if let Kind::EncLzma2Units { unit_pct } = case.kind { Some(unit_pct as u64) } else { None };
                obs.class_if(unit_pct.is_some(), "encoder_units");
                let est = no_panic("estimate", || lz.get_memory_usage())?;
                // input prepared before the measurement
                let n = if unit_pct.is_some() {
                    // several units of one dictionary size each (the dictionary of this kind is at most 1 MiB)
                    (o.dict_size as usize * 4).max(300_000)
                } else if case.seed & 1 == 1 && o.dict_size <= (2 << 20) {
                    // long enough for the encoder's window to slide (more than 1.5 dictionaries + 256 KiB): whatever the
                    // slide allocates counts towards the peak
                    obs.class("encoder_window_slides");
                    o.dict_size as usize * 3 / 2 + (300 << 10) + (case.seed % 200_000) as usize
                } else {
                    ((o.dict_size as usize * 3 / 2).min(1 << 20)).max(1000)
                };
                let data = Data {
                    segs: vec![Seg::Mixed { len: n as u32, seed: case.seed }],
                }
                .expand();
                let lz2 = lz.clone();
                crate::alloc::reset_peak();
                let before = crate::alloc::live();
                let r = no_panic("encode", move || -> std::io::Result<()> {
                    if lzma2 {
                        let mut l2 = LZMA2Options { lzma_options: lz2, chunk_size: None };
                        // the writer rounds the chunk size up to the dictionary size
                        l2.set_chunk_size(unit_pct.and_then(|p| std::num::NonZeroU64::new((data.len() as u64 * p / 100).max(1))));
                        let mut w = LZMA2Writer::new(Sink, l2);
                        if unit_pct.is_some() {
                            // units are cut between write calls
                            for piece in data.chunks(4096) {
                                w.write_all(piece)?;
                            }
                        } else {
                            w.write_all(&data)?;
                        }
                        w.finish().map(|_| ())
                    } else {
                        let mut w = LZMAWriter::new(Sink, &lz2, false, true, None)?;
                        w.write_all(&data)?;
                        w.finish().map(|_| ())
                    }
                })?;
                let peak = crate::alloc::peak().saturating_sub(before) as u64;
                r.map_err(|e| Failure::new("encoder-failed", e.to_string()))?;
                // the `data` buffer is freed inside the closure: it was allocated before reset
                let ratio = kib(est) as f64 / peak.max(1) as f64;
                if obs.notes.len() < 2 {
                    obs.notes.push(format!("encoder dict {} mf {} mode {}: estimate {} KiB, peak {} KiB, ratio {:.2}", o.dict_size, o.mf, o.mode, est, peak / 1024, ratio));
                }
                if peak > kib(est) {
                    return Err(Failure::new(
                        "encoder-estimate-unsound",
                        format!(
                            "{} dict {} mf {} mode {} lc {} lp {}: peak {} bytes > estimate {} KiB{}",
                            if unit_pct.is_some() {
                                "LZMA2Writer with chunk_size"
                            } else if lzma2 {
                                "LZMA2Writer"
                            } else {
                                "LZMAWriter"
                            },
                            o.dict_size,
                            o.mf,
                            o.mode,
                            o.lc,
                            o.lp,
                            peak,
                            est,
                            if peak <= 2 * kib(est) { " (within twice the estimate)" } else { "" }
                        ),
                    ));
                }
                if kib(est) > FACTOR * peak + SLACK {
                    return Err(Failure::new(
                        "encoder-estimate-useless",
                        format!("dict {} mf {} mode {}: estimate {} KiB is {:.1}x the real peak of {} KiB", o.dict_size, o.mf, o.mode, est, ratio, peak / 1024),
                    ));
                }
                Ok(())
            }
            Kind::DecLzma1 | Kind::DecLzma2 => {
                obs.class("decoder");
                let lzma2 = matches!(case.kind, Kind::DecLzma2);
                let small = Opts {
                    dict_size: o.dict_size.min(1 << 20),
                    ..o.clone()
                };
                let data = Data {
                    segs: vec![Seg::Mixed { len: 20_000, seed: case.seed }],
                }
                .expand();
                let fr = if lzma2 { Framing::Lzma2 { chunk: None } } else { Framing::RawEos };
                let stream = encode_lzma(&data, &small, None, &fr, &Plan::All)?;
                let est = if lzma2 {
                    no_panic("estimate", || lzma2_get_memory_usage(o.dict_size))?
                } else {
                    let a = no_panic("estimate", || lzma_get_memory_usage(o.dict_size, o.lc, o.lp))?.map_err(|e| Failure::new("estimator-error", e.to_string()))?;
                    let b = no_panic("estimate", || lzma_get_memory_usage_by_props(o.dict_size, o.props()))?.map_err(|e| Failure::new("estimator-error", e.to_string()))?;
                    if a != b {
                        return Err(Failure::new("estimators-disagree", format!("{a} vs {b} KiB")));
                    }
                    a
                };
                let (dict, lc, lp, pb) = (o.dict_size, o.lc, o.lp, o.pb);
                let mut out = vec![0u8; 65_536];
                crate::alloc::reset_peak();
                let before = crate::alloc::live();
                let r = no_panic("decode", || -> std::io::Result<usize> {
                    let mut total = 0;
                    if lzma2 {
                        let mut r = LZMA2Reader::new(stream.as_slice(), dict, None);
                        loop {
                            let n = r.read(&mut out)?;
                            if n == 0 {
                                break;
                            }
                            total += n;
                        }
                    } else {
                        let mut r = LZMAReader::new(stream.as_slice(), u64::MAX, lc, lp, pb, dict, None)?;
                        loop {
                            let n = r.read(&mut out)?;
                            if n == 0 {
                                break;
                            }
                            total += n;
                        }
                    }
                    Ok(total)
                })?;
                let peak = crate::alloc::peak().saturating_sub(before) as u64;
                let total = r.map_err(|e| Failure::new("decoder-failed", e.to_string()))?;
                if total != data.len() {
                    return Err(Failure::new("harness:decode-length", format!("{total}")));
                }
                let ratio = kib(est) as f64 / peak.max(1) as f64;
                if obs.notes.len() < 2 {
                    obs.notes.push(format!("decoder dict {dict}: estimate {est} KiB, peak {} KiB, ratio {ratio:.2}", peak / 1024));
                }
                if peak > kib(est) {
                    return Err(Failure::new("decoder-estimate-unsound", format!("dict {dict} lc {lc} lp {lp} lzma2 {lzma2}: peak {peak} bytes > estimate {est} KiB")));
                }
                if kib(est) > FACTOR * peak + SLACK {
                    return Err(Failure::new("decoder-estimate-useless", format!("dict {dict}: estimate {est} KiB is {ratio:.1}x the peak {} KiB", peak / 1024)));
                }
                Ok(())
            }
            Kind::Limit(which) => {
                obs.class("limit");
                let need = match lzma_get_memory_usage_by_props(o.dict_size, o.props()) {
                    Ok(n) => n,
                    Err(e) => return Err(Failure::new("estimator-error", e.to_string())),
                };
                let limit = match which {
                    0 => need.saturating_sub(1),
                    1 => need,
                    2 => need.saturating_add(1),
                    3 => 0,
                    _ => u32::MAX,
                };
                // a .lzma header with these parameters followed by a tiny valid stream
                let small = Opts {
                    dict_size: 4096,
                    ..o.clone()
                };
                let mut stream = encode_lzma(b"hello hello hello", &small, None, &Framing::HeaderEos, &Plan::All)?;
                stream[1..5].copy_from_slice(&o.dict_size.to_le_bytes());
                crate::alloc::reset_peak();
                let before = crate::alloc::live();
                let r = no_panic("new_mem_limit", || LZMAReader::new_mem_limit(stream.as_slice(), limit, None).map(|_| ()))?;
                let peak = crate::alloc::peak().saturating_sub(before) as u64;
                match r {
                    Err(e) => {
                        if limit >= need {
                            return Err(Failure::new("limit-spurious-refusal", format!("limit {limit} KiB >= need {need} KiB but: {e}")));
                        }
                        if e.kind() != std::io::ErrorKind::OutOfMemory {
                            return Err(Failure::new("limit-wrong-error-kind", format!("{:?}: {e}", e.kind())));
                        }
                        if peak >= (64 << 10) {
                            return Err(Failure::new("limit-allocated-before-refusing", format!("{peak} bytes allocated before the OutOfMemory error")));
                        }
                        Ok(())
                    }
                    Ok(()) => {
                        if limit < need {
                            return Err(Failure::new("limit-not-enforced", format!("limit {limit} KiB < need {need} KiB (dict {}), reader was created; peak {peak} bytes", o.dict_size)));
                        }
                        Ok(())
                    }
                }
            }
            Kind::LimitSized { which, size_sel, preset } => {
                obs.class("limit_sized");
                if *preset {
                    obs.class("limit_sized_preset");
                }
                let need = match lzma_get_memory_usage_by_props(o.dict_size, o.props()) {
                    Ok(n) => n,
                    Err(e) => return Err(Failure::new("estimator-error", e.to_string())),
                };
                let data = b"hello hello hello hello hello hello world";
                let size: u64 = match size_sel {
                    0 => data.len() as u64,
                    1 => 1,
                    2 => o.dict_size as u64 - 1,
                    3 => o.dict_size as u64 + 1,
                    _ => 0,
                };
                let small_need = lzma_get_memory_usage_by_props((size.min(o.dict_size as u64) as u32).max(4096), o.props()).unwrap_or(need);
                let limit = match which {
                    0 => need.saturating_sub(1),
                    1 => need,
                    2 => need.saturating_add(1),
                    3 => 0,
                    4 => u32::MAX,
                    5 => small_need,
                    _ => small_need + (need - small_need.min(need)) / 2,
                };
                let small = Opts {
                    dict_size: 4096,
                    ..o.clone()
                };
                let mut stream = encode_lzma(data, &small, None, &Framing::HeaderSized, &Plan::All)?;
                stream[1..5].copy_from_slice(&o.dict_size.to_le_bytes());
                stream[5..13].copy_from_slice(&size.to_le_bytes());
                let pd: Vec<u8> = (0..300u32).map(|i| (i * 7) as u8).collect();
                crate::alloc::reset_peak();
                let before = crate::alloc::live();
                let r = no_panic("new_mem_limit", || {
                    let preset_dict = if *preset { Some(pd.as_slice()) } else { None };
                    LZMAReader::new_mem_limit(stream.as_slice(), limit, preset_dict).map(|mut r| {
                        // use the reader: whatever it decodes, it has to stay inside the limit
                        let mut sink = [0u8; 64];
                        let mut n = 0usize;
                        while let Ok(k) = r.read(&mut sink) {
                            n += k;
                            if k == 0 || n > 4096 {
                                break;
                            }
                        }
                    })
                })?;
                let peak = crate::alloc::peak().saturating_sub(before) as u64;
                match r {
                    Err(e) => {
                        if limit >= need {
                            return Err(Failure::new("limit-spurious-refusal", format!("limit {limit} KiB >= need {need} KiB but: {e}")));
                        }
                        if e.kind() != std::io::ErrorKind::OutOfMemory {
                            return Err(Failure::new("limit-wrong-error-kind", format!("{:?}: {e}", e.kind())));
                        }
                        if peak >= (64 << 10) {
                            return Err(Failure::new("limit-allocated-before-refusing", format!("{peak} bytes allocated before the OutOfMemory error")));
                        }
                        Ok(())
                    }
                    Ok(()) => {
                        if peak > kib(limit) {
                            return Err(Failure::new(
                                "limit-exceeded",
                                format!("limit {limit} KiB, header dict {} size {size} preset {preset}: the reader allocated {peak} bytes", o.dict_size),
                            ));
                        }
                        if limit < need {
                            return Err(Failure::new(
                                "limit-not-enforced",
                                format!("limit {limit} KiB < need {need} KiB (dict {}, declared size {size}, preset {preset}), reader was created; peak {peak} bytes", o.dict_size),
                            ));
                        }
                        Ok(())
                    }
                }
            }
            Kind::EstimateOnly => {
                obs.class("estimate_only");
                let est = no_panic("estimate", || lz.get_memory_usage())?;
                let cf = encoder_closed_form(o, true);
                if cf > kib(est) {
                    return Err(Failure::new(
                        "encoder-estimate-below-closed-form",
                        format!("dict {} mf {} mode {} lc+lp {}: estimate {} KiB, closed form of the allocations {} KiB", o.dict_size, o.mf, o.mode, o.lc + o.lp, est, cf / 1024),
                    ));
                }
                if kib(est) > FACTOR * cf + SLACK {
                    return Err(Failure::new(
                        "encoder-estimate-useless",
                        format!("dict {} mf {} mode {}: estimate {} KiB, closed form {} KiB", o.dict_size, o.mf, o.mode, est, cf / 1024),
                    ));
                }
                let d2 = no_panic("estimate", || lzma2_get_memory_usage(o.dict_size))?;
                if kib(d2) < o.dict_size as u64 {
                    return Err(Failure::new("decoder-estimate-below-dictionary", format!("{d2} KiB for dict {}", o.dict_size)));
                }
                let d1 = no_panic("estimate", || lzma_get_memory_usage(o.dict_size, o.lc, o.lp))?.map_err(|e| Failure::new("estimator-error", e.to_string()))?;
                if kib(d1) < o.dict_size as u64 {
                    return Err(Failure::new("decoder-estimate-below-dictionary", format!("{d1} KiB for dict {}", o.dict_size)));
                }
                Ok(())
            }
        }
    }
}
