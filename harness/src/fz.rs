//! Seed corpus for the libFuzzer target `fuzz_decode` (6 parameter bytes + a valid stream of the
//! decoder the first byte selects) and `fuzz_roundtrip` (a few byte strings).

use crate::codec::*;
use crate::cont::*;
use crate::gen::*;

pub fn write_seeds(dir: &str) -> std::io::Result<usize> {
    std::fs::create_dir_all(format!("{dir}/fuzz_decode"))?;
    std::fs::create_dir_all(format!("{dir}/fuzz_roundtrip"))?;
    let mut n = 0usize;
    let mut put = |target: &str, name: &str, bytes: &[u8]| -> std::io::Result<()> {
        if bytes.len() > 16_000 {
            return Ok(());
        }
        std::fs::write(format!("{dir}/{target}/{name}"), bytes)?;
        n += 1;
        Ok(())
    };
    let datas: Vec<(&str, Data)> = vec![
        ("text", Data { segs: vec![Seg::Text { len: 3000, seed: 1 }] }),
        ("mixed", Data { segs: vec![Seg::Mixed { len: 5000, seed: 2 }, Seg::CopyBack { len: 400, dist: 3000 }] }),
        ("rand", Data { segs: vec![Seg::Rand { len: 2500, seed: 3 }, Seg::Text { len: 1000, seed: 4 }] }),
        
        ("code", Data { segs: vec![Seg::Opcode { len: 6000, arch: 0, seed: 5 }] }),
        ("empty", Data::default()),
    ];
    for (dn, d) in &datas {
        let bytes = d.expand();
        for (on, dict_log, lc, lp, pb, mode) in [("a", 12u32, 3u32, 0u32, 2u32, 0u8), ("b", 16, 0, 2, 0, 1), ("c", 20, 4, 0, 4, 1)] {
            let opts = Opts { dict_size: 1 << dict_log, lc, lp, pb, mode, nice_len: 32, mf: (dict_log % 2) as u8, depth: 0 };
            let p2 = (dict_log - 12) as u8;
            if let Ok(s) = encode_lzma(&bytes, &opts, None, &Framing::HeaderEos, &Plan::All) {
                let mut v = vec![0u8, 0, 0, 0, 0, 0];
                v.extend_from_slice(&s);
                put("fuzz_decode", &format!("lzma_header_{dn}_{on}"), &v)?;
            }
            if let Ok(s) = encode_lzma(&bytes, &opts, None, &Framing::RawEos, &Plan::All) {
                let props = ((pb * 5 + lp) * 9 + lc) as u8;
                let mut v = vec![1u8, props, p2, 0, 0, 0];
                v.extend_from_slice(&s);
                put("fuzz_decode", &format!("lzma_raw_{dn}_{on}"), &v)?;
            }
            for (cn, chunk) in [("n", None), ("u", Some(5000u64))] {
                if let Ok(s) = encode_lzma(&bytes, &opts, None, &Framing::Lzma2 { chunk }, &Plan::All) {
                    let mut v = vec![2u8, 0, p2, 0, 0, 1];
                    v.extend_from_slice(&s);
                    put("fuzz_decode", &format!("lzma2_{dn}_{on}_{cn}"), &v)?;
                }
            }
            for (fname, filters) in [
                ("plain", vec![]),
                ("delta", vec![FilterSpec::Delta(4)]),
                ("x86", vec![FilterSpec::Bcj(0, 0)]),
                ("x86_start", vec![FilterSpec::Bcj(0, 8192)]),
                ("ppc_start_delta", vec![FilterSpec::Bcj(1, 0x1000_0000), FilterSpec::Delta(2)]),
                ("arm64_delta", vec![FilterSpec::Delta(1), FilterSpec::Bcj(6, 4096)]),
            ] {
                let cfg = XzCfg { check: (dict_log % 4) as u8, block: if on == "b" { Some(4000) } else { None }, filters, opts: opts.clone() };
                if let Ok(s) = encode_xz(&bytes, &cfg, &Plan::All) {
                    let mut v = vec![3u8, if dict_log == 16 { 1 } else { 3 }, 0, 0, 0, 0];
                    v.extend_from_slice(&s);
                    // two concatenated streams with padding
                    let mut v2 = v.clone();
                    v2.extend_from_slice(&[0, 0, 0, 0]);
                    v2.extend_from_slice(&s);
                    put("fuzz_decode", &format!("xz_{dn}_{on}_{fname}"), &v)?;
                    if on == "a" {
                        put("fuzz_decode", &format!("xz2_{dn}_{on}_{fname}"), &v2)?;
                    }
                }
            }
            let cfg = LzipCfg { opts: opts.clone(), member: if on == "b" { Some(3000) } else { None } };
            if let Ok(s) = encode_lzip(&bytes, &cfg, &Plan::All) {
                let mut v = vec![4u8, 0, 0, 0, 0, 0];
                v.extend_from_slice(&s);
                put("fuzz_decode", &format!("lzip_{dn}_{on}"), &v)?;
            }
        }
        for arch in 0u8..8 {
            let mut v = vec![5u8, 0, 0, 0, 0, arch * 5];
            v.extend_from_slice(&bytes[..bytes.len().min(8000)]);
            put("fuzz_decode", &format!("bcj_{dn}_{arch}"), &v)?;
        }
        let mut v = vec![6u8, 3, 0, 0, 0, 0];
        v.extend_from_slice(&bytes[..bytes.len().min(3000)]);
        put("fuzz_decode", &format!("delta_{dn}"), &v)?;
        let cut = &bytes[..bytes.len().min(6000)];
        let s = crate::p11::bcj2_encode(cut, |k| k % 3 != 0);
        let mut v = vec![7u8, 0, 0, 2, 0, 0];
        for part in [&s.main, &s.call, &s.jump, &s.rc] {
            v.extend_from_slice(&(part.len().min(65_535) as u16).to_le_bytes());
            v.extend_from_slice(&part[..part.len().min(65_535)]);
        }
        put("fuzz_decode", &format!("bcj2_{dn}"), &v)?;
        put("fuzz_roundtrip", &format!("rt_{dn}"), &bytes[..bytes.len().min(4000)])?;
    }
    std::fs::write(
        format!("{dir}/tokens.dict"),
        concat!(
            "\"\\xFD7zXZ\\x00\"\n\"YZ\"\n\"LZIP\\x01\"\n\"\\x21\\x01\"\n\"\\x03\\x01\"\n\"\\x04\\x04\"\n\"\\x04\\x00\"\n\"\\x05\\x04\"\n\"\\x06\\x04\"\n",
            "\"\\x07\\x04\"\n\"\\x08\\x04\"\n\"\\x09\\x04\"\n\"\\x0A\\x04\"\n\"\\x0B\\x04\"\n\"\\x00\\x01\"\n\"\\x00\\x04\"\n\"\\xE0\"\n\"\\xC0\"\n\"\\xA0\"\n\"\\x80\"\n",
            "\"\\x01\"\n\"\\x02\"\n\"\\xFF\\xFF\"\n\"\\x5D\\x00\\x00\\x01\\x00\"\n\"\\xFF\\xFF\\xFF\\xFF\\xFF\\xFF\\xFF\\xFF\"\n\"\\x00\\x00\\x00\\x00\"\n"
        ),
    )?;
    // real executables compressed by liblzma
    for f in std::fs::read_dir("/verif/corpus/exe")?.flatten() {
        let name = f.file_name().to_string_lossy().to_string();
        if name.ends_with(".xz") {
            let mut v = vec![3u8, 0, 0, 0, 0, 0];
            v.extend_from_slice(&std::fs::read(f.path())?);
            if v.len() < 16_000 {
                put("fuzz_decode", &format!("exe_{name}"), &v)?;
            }
        }
    }
    Ok(n)
}
