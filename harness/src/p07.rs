//! C07 — independence from write / flush / read call patterns.

use std::io::{self, Write};
use std::num::NonZeroU64;

use lzma_rust2::filter::delta::DeltaWriter;
use lzma_rust2::{LZIPWriter, LZMA2Options, LZMA2Writer, LZMAWriter, XZWriter};
use proptest::prelude::*;
use serde::{Deserialize, Serialize};

use crate::codec::*;
use crate::cont::*;
use crate::engine::*;
use crate::gen::*;
use crate::p05::bcj_writer;
use crate::refimpl::BCJ_ALIGN;

#[derive(Clone, Debug, Serialize, Deserialize, PartialEq)]
pub enum Op {
    /// write the next `n` bytes with write_all
    W(u32),
    /// a zero-length write
    Empty,
    Flush,
}

#[derive(Clone, Debug, Serialize, Deserialize)]
pub enum Target {
    Lzma { framing: Framing, opts: Opts, preset: Option<Data> },
    Xz(XzCfg),
    Lzip(LzipCfg),
    Bcj { arch: u8, start: u32 },
    Delta { dist: u32 },
}

#[derive(Clone, Debug, Serialize, Deserialize)]
pub struct Case {
    pub data: Data,
    pub target: Target,
    /// cycled until the data is consumed
    pub ops: Vec<Op>,
    pub sizes: Vec<u32>,
    /// flush near the window end: the first write is sized so that it ends `n` bytes in front of the physical end
    /// of the encoder's window buffer (measured with a probe run through the crate's hook), then flush, then the rest
    #[serde(default)]
    pub flush_at_window_end: Option<u16>,
}

pub struct C07;

fn ops_strategy() -> BoxedStrategy<Vec<Op>> {
    let w = prop_oneof![
        3 => Just(1u32),
        3 => 1u32..16,
        2 => prop_oneof![Just(4095u32), Just(4096u32), Just(4097u32)],
        3 => 1u32..6000,
        2 => 1000u32..80_000,
        1 => Just(u32::MAX),
    ];
    proptest::collection::vec(
        prop_oneof![6 => w.prop_map(Op::W), 1 => Just(Op::Empty), 2 => Just(Op::Flush)],
        1..7,
    )
    .boxed()
}

fn run_ops<W: Write>(w: &mut W, data: &[u8], ops: &[Op]) -> io::Result<(usize, usize)> {
    // returns (non-empty writes, flushes between writes)
    let mut off = 0usize;
    let mut i = 0usize;
    let mut writes = 0usize;
    let mut flushes = 0usize;
    let has_w = ops.iter().any(|o| matches!(o, Op::W(_)));
    let mut guard = 0usize;
    while off < data.len() {
        guard += 1;
        let op = if has_w { &ops[i % ops.len()] } else { &Op::W(u32::MAX) };
        i += 1;
        match op {
            Op::W(n) => {
                let n = (*n as usize).clamp(1, data.len() - off);
                w.write_all(&data[off..off + n])?;
                off += n;
                writes += 1;
            }
            Op::Empty => {
                let r = w.write(&[])?;
                if r != 0 {
                    return Err(io::Error::other("VERIF: empty write reported bytes"));
                }
            }
            Op::Flush => {
                w.flush()?;
                if off > 0 {
                    flushes += 1;
                }
            }
        }
        if guard > 10_000_000 {
            return Err(io::Error::other("VERIF: op loop"));
        }
    }
    // ops that are not writes also run once when the data is empty / at the end
    for op in ops.iter().take(3) {
        match op {
            Op::Empty => {
                w.write(&[])?;
            }
            Op::Flush => w.flush()?,
            _ => {}
        }
    }
    Ok((writes, flushes))
}

impl Target {
    fn encode(&self, data: &[u8], ops: &[Op]) -> Result<(Vec<u8>, usize, usize), Failure> {
        let r = no_panic("encode", || -> io::Result<(Vec<u8>, usize, usize)> {
            match self {
                Target::Lzma { framing: Framing::Lzma2 { chunk }, opts, preset } => {
                    let mut o = opts.to_lzma();
                    o.preset_dict = preset.as_ref().map(|p| p.expand()).filter(|p| !p.is_empty());
                    let mut l2 = LZMA2Options {
                        lzma_options: o,
                        chunk_size: None,
                    };
                    l2.set_chunk_size(chunk.and_then(NonZeroU64::new));
                    let mut w = LZMA2Writer::new(Vec::new(), l2);
                    let (a, b) = run_ops(&mut w, data, ops)?;
                    Ok((w.finish()?, a, b))
                }
                Target::Lzma { framing, opts, preset } => {
                    let mut o = opts.to_lzma();
                    o.preset_dict = preset.as_ref().map(|p| p.expand()).filter(|p| !p.is_empty());
                    let (hdr, eos, size) = match framing {
                        Framing::HeaderEos => (true, true, None),
                        Framing::HeaderSized => (true, false, Some(data.len() as u64)),
                        Framing::RawEos | Framing::RawSizedEos => (false, true, None),
                        _ => (false, false, None),
                    };
                    let mut w = LZMAWriter::new(Vec::new(), &o, hdr, eos, size)?;
                    let (a, b) = run_ops(&mut w, data, ops)?;
                    Ok((w.finish()?, a, b))
                }
                Target::Xz(cfg) => {
                    let mut w = XZWriter::new(Vec::new(), xz_options(cfg))?;
                    let (a, b) = run_ops(&mut w, data, ops)?;
                    Ok((w.finish()?, a, b))
                }
                Target::Lzip(cfg) => {
                    let mut w = LZIPWriter::new(Vec::new(), lzip_options(cfg));
                    let (a, b) = run_ops(&mut w, data, ops)?;
                    Ok((w.finish()?, a, b))
                }
                Target::Bcj { arch, start } => {
                    let mut w = bcj_writer(Vec::new(), *arch, *start as usize);
                    let (a, b) = run_ops(&mut w, data, ops)?;
                    w.flush()?;
                    Ok((w.into_inner(), a, b))
                }
                Target::Delta { dist } => {
                    let mut w = DeltaWriter::new(Vec::new(), *dist as usize);
                    let (a, b) = run_ops(&mut w, data, ops)?;
                    w.flush()?;
                    Ok((w.into_inner(), a, b))
                }
            }
        })?;
        r.map_err(|e| Failure::new(format!("write-failed:{:?}", e.kind()), e.to_string()))
    }

    fn decode(&self, stream: &[u8], n: usize, sizes: &[u32]) -> Result<io::Result<Vec<u8>>, Failure> {
        let cap = n + (1 << 20);
        match self {
            Target::Lzma { framing, opts, preset } => {
                let p = preset.as_ref().map(|p| p.expand()).filter(|p| !p.is_empty());
                decode_lzma(stream, n, opts, p.as_deref(), framing, sizes)
            }
            Target::Xz(_) => decode_xz(stream, false, sizes, cap),
            Target::Lzip(_) => decode_lzip(stream, sizes, cap),
            Target::Bcj { arch, start } => {
                let t = crate::p05::Target::Bcj { arch: *arch, start: *start };
                no_panic("bcj-read", || t.read_from_pub(stream.to_vec(), n, sizes, cap))
            }
            Target::Delta { dist } => {
                let t = crate::p05::Target::Delta { dist: *dist };
                no_panic("delta-read", || t.read_from_pub(stream.to_vec(), n, sizes, cap))
            }
        }
    }

    fn name(&self) -> &'static str {
        match self {
            Target::Lzma { framing: Framing::Lzma2 { .. }, .. } => "lzma2",
            Target::Lzma { .. } => "lzma1",
            Target::Xz(_) => "xz",
            Target::Lzip(_) => "lzip",
            Target::Bcj { .. } => "bcj",
            Target::Delta { .. } => "delta",
        }
    }
}

fn target_strategy(tier: Tier, family: u32) -> BoxedStrategy<Target> {
    let md = tier.pick(1u32 << 20, 1 << 24);
    let preset = || prop_oneof![4 => Just(None), 1 => data_strategy(2, 3000).prop_map(Some)];
    match family % 8 {
        0 => (opts_strategy(md, false), preset(), prop_oneof![
            Just(Framing::HeaderEos),
            Just(Framing::HeaderSized),
            Just(Framing::RawEos),
            Just(Framing::RawSized),
            Just(Framing::RawSizedEos)
        ])
            .prop_map(|(opts, preset, framing)| {
                let preset = if matches!(framing, Framing::HeaderEos | Framing::HeaderSized) { None } else { preset };
                Target::Lzma { framing, opts, preset }
            })
            .boxed(),
        1 | 2 => (opts_strategy(md.min(1 << 18), true), preset())
            .prop_flat_map(|(opts, preset)| {
                let d = opts.dict_size as u64;
                (prop_oneof![Just(None), (1u64..=d * 2).prop_map(Some)], Just(opts), Just(preset))
            })
            .prop_map(|(chunk, opts, preset)| Target::Lzma {
                framing: Framing::Lzma2 { chunk },
                opts,
                preset,
            })
            .boxed(),
        3 | 4 => xz_cfg_strategy(md.min(1 << 18)).prop_map(Target::Xz).boxed(),
        5 => lzip_cfg_strategy(md.min(1 << 18)).prop_map(Target::Lzip).boxed(),
        6 => (0u8..8, prop_oneof![Just(0u32), 0u32..100_000, any::<u32>()])
            .prop_map(|(arch, s)| Target::Bcj {
                arch,
                start: s / BCJ_ALIGN[arch as usize] * BCJ_ALIGN[arch as usize],
            })
            .boxed(),
        _ => (1u32..=256).prop_map(|dist| Target::Delta { dist }).boxed(),
    }
}

impl Property for C07 {
    type Case = Case;
    const ID: &'static str = "C07";

    fn families(_tier: Tier) -> u32 {
        9
    }

    fn strategy(tier: Tier, family: u32) -> BoxedStrategy<Case> {
        if family == 8 {
            // LZMA2 / LZMA writer, small dictionary, compressible data longer than the window buffer, flush with the
            // window nearly full (up to nice_len positions pending), then more data: the next fill moves the window
            let seg = prop_oneof![
                (2u8..6, any::<u64>()).prop_map(|(alphabet, seed)| Seg::Tiles { len: 0, alphabet, seed }),
                (1u16..5000, any::<u64>()).prop_map(|(period, seed)| Seg::Periodic { len: 0, period, seed }),
                any::<u64>().prop_map(|seed| Seg::Text { len: 0, seed }),
                any::<u64>().prop_map(|seed| Seg::Mixed { len: 0, seed }),
            ];
            return (
                seg,
                opts_strategy(1 << 14, true),
                prop_oneof![Just(4096u32), Just(8192u32), 4096u32..=16_384, Just(65_536u32)],
                prop_oneof![3 => Just(0u8), 1 => Just(1u8)],
                prop_oneof![2 => Just(273u32), 1 => 64u32..=273, 1 => 8u32..64],
                any::<bool>(),
                0u16..700,
                10_000u32..60_000,
                read_sizes_strategy(),
            )
                .prop_map(|(mut seg, mut opts, dict, mode, nice, lzma1, back, extra, sizes)| {
                    opts.dict_size = dict;
                    opts.mode = mode;
                    opts.nice_len = nice;
                    // window buffer: dict + extra before/after + max(dict/2 + 256 KiB, 512 MiB cap); the data must reach beyond it
                    let len = dict + dict / 2 + (256 << 10) + 8192 + extra;
                    match &mut seg {
                        Seg::Tiles { len: l, .. } | Seg::Periodic { len: l, .. } | Seg::Text { len: l, .. } | Seg::Mixed { len: l, .. } => *l = len,
                        _ => {}
                    }
                    Case {
                        data: Data { segs: vec![seg] },
                        target: Target::Lzma {
                            framing: if lzma1 { Framing::RawEos } else { Framing::Lzma2 { chunk: None } },
                            opts,
                            preset: None,
                        },
                        ops: vec![Op::W(u32::MAX)],
                        sizes,
                        flush_at_window_end: Some(back),
                    }
                })
                .boxed();
        }
        let data = if family % 8 == 6 {
            // code-like data for the BCJ filters
            proptest::collection::vec(
                prop_oneof![
                    (100u32..20_000, 0u8..8, any::<u64>()).prop_map(|(len, arch, seed)| Seg::Opcode { len, arch, seed }),
                    (100u32..20_000, 0u8..8, any::<u32>()).prop_map(|(len, file, off)| Seg::Exe { len, file, off }),
                    (4000u32..40_000, any::<u64>()).prop_map(|(len, seed)| Seg::X86Soup { len, seed }),
                ],
                1..3,
            )
            .prop_map(|segs| Data { segs })
            .boxed()
        } else {
            prop_oneof![1 => Just(Data::default()), 9 => data_strategy(5, tier.pick(40_000, 300_000))].boxed()
        };
        (data, target_strategy(tier, family), ops_strategy(), read_sizes_strategy())
            .prop_map(|(data, target, ops, sizes)| Case {
                data,
                target,
                ops,
                sizes,
                flush_at_window_end: None,
            })
            .boxed()
    }

    fn budget(tier: Tier) -> u64 {
        tier.pick(12_000, 150_000)
    }

    fn rule() -> &'static str {
        "history = cycle of Write(n) / Write(empty) / Flush operations partitioning a generated input, for LZMAWriter (5 framings), LZMA2Writer (+/- chunk size, +/- preset dictionary), XZWriter (+/- block size, +/- pre-filters), LZIPWriter (+/- member size), BCJWriter x8 and DeltaWriter, plus a family in which the first write ends 0-699 bytes in front of the physical end of the encoder's window buffer and is followed by flush and more data; then the produced stream is read back with a generated cycle of destination sizes including 0 and 1. Model = the concatenation of the slices: the stream must decode to it, filter writers must emit exactly the single-write bytes, and the reader output must not depend on the size sequence (compared with a single large read). Non-trivial = >= 2 non-empty writes or a flush between writes. Distinct = hash of the case recipe."
    }

    fn floors(_tier: Tier) -> Vec<(&'static str, f64)> {
        vec![
            ("multi_write", 35.0),
            ("flush_between", 15.0),
            ("zero_len_read", 8.0),
            ("xz", 15.0),
            ("lzma2", 15.0),
            ("bcj", 8.0),
            ("flush_at_window_end", 5.0),
        ]
    }

    fn known(case: &Case, f: &Failure) -> Option<&'static str> {
        let n = case.data.total_len();
        // number of non-empty writes the history performs
        let mut writes = 0usize;
        let mut off = 0usize;
        let has_w = case.ops.iter().any(|o| matches!(o, Op::W(_)));
        let mut i = 0usize;
        while off < n && writes < 3 {
            let op = if has_w { &case.ops[i % case.ops.len()] } else { &Op::W(u32::MAX) };
            i += 1;
            if let Op::W(k) = op {
                off += (*k as usize).clamp(1, n - off);
                writes += 1;
            }
        }
        let multi = writes >= 2;
        match &case.target {
            Target::Bcj { .. } if multi && (f.sig.starts_with("filter-") || f.sig.starts_with("roundtrip")) => Some("KF-BCJW-MULTIWRITE"),
            Target::Xz(cfg) if bcj_multiwrite_region(&cfg.filters, multi) && (f.sig.starts_with("roundtrip") || f.sig.starts_with("read-pattern")) => {
                Some("KF-BCJW-MULTIWRITE")
            }
            _ => None,
        }
    }

    fn run(case: &Case, obs: &mut Obs) -> Outcome {
        let data = case.data.expand();
        let t = &case.target;
        obs.class(t.name());
        let mut fitted_ops: Option<Vec<Op>> = None;
        if let Some(back) = case.flush_at_window_end {
            // probe: a short input, the hook reports the free space of the window buffer at finish
            let k0 = 1000.min(data.len());
            let _ = lzma_rust2::verif_api::take_last_finish_gap();
            let _ = t.encode(&data[..k0], &[Op::W(u32::MAX)])?;
            let gap = lzma_rust2::verif_api::take_last_finish_gap();
            if gap != u64::MAX {
                let first = (k0 as u64 + gap).saturating_sub(back as u64);
                if first > 0 && (first as usize) < data.len() {
                    fitted_ops = Some(vec![Op::W(first as u32), Op::Flush, Op::W(u32::MAX)]);
                    obs.class("flush_at_window_end");
                }
            }
        }
        let ops: &[Op] = fitted_ops.as_deref().unwrap_or(&case.ops);
        let (stream, writes, flushes) = t.encode(&data, ops)?;
        obs.class_if(writes >= 2, "multi_write");
        obs.class_if(flushes >= 1, "flush_between");
        obs.class_if(case.sizes.contains(&0), "zero_len_read");
        obs.nontrivial = writes >= 2 || flushes >= 1;

        // filter writers: the emitted bytes are those of a single write
        if matches!(t, Target::Bcj { .. } | Target::Delta { .. }) {
            let (single, _, _) = t.encode(&data, &[Op::W(u32::MAX)])?;
            if single != stream {
                return Err(Failure::new(
                    "filter-split-differs",
                    format!("{}: {} writes / {} flushes: {}", t.name(), writes, flushes, first_diff(&stream, &single)),
                ));
            }
        }
        // decode with one large read: must be the concatenation
        let big = t.decode(&stream, data.len(), &[1 << 20])?;
        match &big {
            Ok(o) if *o == data => {}
            Ok(o) => {
                return Err(Failure::new(
                    "roundtrip-mismatch",
                    format!("{}: {} writes / {} flushes: {}", t.name(), writes, flushes, first_diff(o, &data)),
                ))
            }
            Err(e) => {
                return Err(Failure::new(
                    "roundtrip-decode-error",
                    format!("{}: {} writes / {} flushes: {e}", t.name(), writes, flushes),
                ))
            }
        }
        // decode with the generated size sequence: identical
        match t.decode(&stream, data.len(), &case.sizes)? {
            Ok(o) if o == data => Ok(()),
            Ok(o) => Err(Failure::new(
                "read-pattern-mismatch",
                format!("{} read with sizes {:?}: {}", t.name(), case.sizes, first_diff(&o, &data)),
            )),
            Err(e) => Err(Failure::new(
                "read-pattern-error",
                format!("{} read with sizes {:?}: {e}", t.name(), case.sizes),
            )),
        }
    }
}
