//! C14 worker: runs a list of cases against ONE feature configuration of lzma-rust2 and prints a
//! transcript. The driver builds this crate four times (std/no_std x optimization on/off) and
//! compares the transcripts line by line.

use std::io::BufRead;

#[cfg(not(feature = "std"))]
use lzma_rust2::{Read, Write};
#[cfg(feature = "std")]
use std::io::{Read, Write};

use lzma_rust2::verif_api;
use lzma_rust2::{
    EncodeMode, LZIPOptions, LZIPReader, LZIPWriter, LZMA2Options, LZMA2Reader, LZMA2Writer, LZMAOptions, LZMAReader, LZMAWriter,
    MFType, XZOptions, XZReader, XZWriter,
};
use serde_json::Value;

fn fnv64(data: &[u8]) -> u64 {
    let mut h: u64 = 0xcbf2_9ce4_8422_2325;
    for &b in data {
        h ^= b as u64;
        h = h.wrapping_mul(0x0000_0100_0000_01B3);
    }
    h
}

fn unhex(s: &str) -> Vec<u8> {
    let b = s.as_bytes();
    let mut v = Vec::with_capacity(b.len() / 2);
    let d = |c: u8| -> u8 {
        match c {
            b'0'..=b'9' => c - b'0',
            b'a'..=b'f' => c - b'a' + 10,
            _ => 0,
        }
    };
    for p in b.chunks(2) {
        if p.len() == 2 {
            v.push(d(p[0]) << 4 | d(p[1]));
        }
    }
    v
}

#[cfg(feature = "std")]
fn err_class(e: &std::io::Error) -> &'static str {
    use std::io::ErrorKind::*;
    match e.kind() {
        UnexpectedEof => "EOF",
        Interrupted => "Interrupted",
        InvalidData => "InvalidData",
        InvalidInput => "InvalidInput",
        OutOfMemory => "OutOfMemory",
        Unsupported => "Unsupported",
        WriteZero => "WriteZero",
        _ => "Other",
    }
}

#[cfg(not(feature = "std"))]
fn err_class(e: &lzma_rust2::Error) -> &'static str {
    use lzma_rust2::Error::*;
    match e {
        EOF => "EOF",
        Interrupted => "Interrupted",
        InvalidData(_) => "InvalidData",
        InvalidInput(_) => "InvalidInput",
        OutOfMemory(_) => "OutOfMemory",
        Unsupported(_) => "Unsupported",
        WriteZero(_) => "WriteZero",
        Other(_) => "Other",
    }
}

fn opts(v: &Value) -> LZMAOptions {
    let g = |k: &str| v[k].as_u64().unwrap_or(0);
    LZMAOptions::new(
        g("dict_size") as u32,
        g("lc") as u32,
        g("lp") as u32,
        g("pb") as u32,
        if g("mode") == 0 { EncodeMode::Fast } else { EncodeMode::Normal },
        g("nice_len") as u32,
        if g("mf") == 0 { MFType::HC4 } else { MFType::BT4 },
        v["depth"].as_i64().unwrap_or(0) as i32,
    )
}

/// reads to the end with a fixed buffer size; returns (bytes produced, hash, error class)
fn drain<R: Read>(r: &mut R, chunk: usize) -> (usize, u64, &'static str) {
    let mut buf = vec![0u8; chunk.max(1)];
    let mut out: Vec<u8> = Vec::new();
    loop {
        match r.read(&mut buf) {
            Ok(0) => return (out.len(), fnv64(&out), "ok"),
            Ok(n) => {
                out.extend_from_slice(&buf[..n]);
                if out.len() > (64 << 20) {
                    return (out.len(), fnv64(&out), "cap");
                }
            }
            Err(e) => return (out.len(), fnv64(&out), err_class(&e)),
        }
    }
}

fn write_all_pieces<W: Write>(w: &mut W, data: &[u8], piece: usize) -> Result<(), &'static str> {
    for c in data.chunks(piece.max(1)) {
        w.write_all(c).map_err(|e| err_class(&e))?;
    }
    Ok(())
}

fn run_case(v: &Value) -> String {
    let kind = v["kind"].as_str().unwrap_or("");
    let chunk = v["read_size"].as_u64().unwrap_or(65536) as usize;
    let piece = v["write_size"].as_u64().unwrap_or(1 << 30) as usize;
    match kind {
        "enc" => {
            let mut data = unhex(v["data"].as_str().unwrap_or(""));
            let o = opts(&v["opts"]);
            let framing = v["framing"].as_str().unwrap_or("lzma2");
            verif_api::set_lz_pos_bias(v["bias"].as_i64().unwrap_or(0) as i32);
            let encode = |data: &[u8]| -> Result<Vec<u8>, &'static str> { match framing {
                "lzma1" => {
                    let mut w = LZMAWriter::new(Vec::new(), &o, false, true, None).map_err(|e| err_class(&e))?;
                    write_all_pieces(&mut w, &data, piece)?;
                    w.finish().map_err(|e| err_class(&e))
                }
                "lzma2" => {
                    let mut l2 = LZMA2Options {
                        lzma_options: o.clone(),
                        chunk_size: None,
                    };
                    l2.set_chunk_size(core::num::NonZeroU64::new(v["unit"].as_u64().unwrap_or(0)));
                    let mut w = LZMA2Writer::new(Vec::new(), l2);
                    write_all_pieces(&mut w, &data, piece)?;
                    w.finish().map_err(|e| err_class(&e))
                }
                "xz" => {
                    let mut xo = XZOptions::with_preset(6);
                    xo.lzma_options = o.clone();
                    xo.set_block_size(core::num::NonZeroU64::new(v["unit"].as_u64().unwrap_or(0)));
                    let mut w = XZWriter::new(Vec::new(), xo).map_err(|e| err_class(&e))?;
                    write_all_pieces(&mut w, &data, piece)?;
                    w.finish().map_err(|e| err_class(&e))
                }
                _ => {
                    let mut lo = LZIPOptions::with_preset(6);
                    lo.lzma_options = o.clone();
                    lo.set_member_size(core::num::NonZeroU64::new(v["unit"].as_u64().unwrap_or(0)));
                    let mut w = LZIPWriter::new(Vec::new(), lo);
                    write_all_pieces(&mut w, &data, piece)?;
                    w.finish().map_err(|e| err_class(&e))
                }
            } };
            // "fit": make the input end that many bytes after the physical end of the window buffer
            if let Some(delta) = v["fit"].as_i64() {
                let _ = verif_api::take_last_finish_gap();
                let _ = encode(&data);
                let gap = verif_api::take_last_finish_gap();
                if gap != u64::MAX && gap <= (1 << 20) {
                    let n = gap as i64 + delta;
                    if n < 0 {
                        let cut = ((-n) as usize).min(data.len());
                        data.truncate(data.len() - cut);
                    } else {
                        if data.is_empty() {
                            data.extend_from_slice(b"window fit ");
                        }
                        let period = data.len().min(331);
                        for _ in 0..n {
                            let b = data[data.len() - period];
                            data.push(b);
                        }
                    }
                }
            }
            let _ = verif_api::take_last_finish_gap();
            let enc = encode(&data);
            let gap = verif_api::take_last_finish_gap();
            verif_api::set_lz_pos_bias(0);
            let counters = verif_api::take_counters();
            match enc {
                Err(c) => format!("enc-err {c}"),
                Ok(s) => {
                    let (n, h, c) = match framing {
                        "lzma1" => match LZMAReader::new(s.as_slice(), u64::MAX, o.lc, o.lp, o.pb, o.dict_size, None) {
                            Ok(mut r) => drain(&mut r, chunk),
                            Err(e) => (0, 0, err_class(&e)),
                        },
                        "lzma2" => drain(&mut LZMA2Reader::new(s.as_slice(), o.dict_size, None), chunk),
                        "xz" => drain(&mut XZReader::new(s.as_slice(), false), chunk),
                        _ => match LZIPReader::new(s.as_slice()) {
                            Ok(mut r) => drain(&mut r, chunk),
                            Err(e) => (0, 0, err_class(&e)),
                        },
                    };
                    format!(
                        "enc {} {:016x} norm {} dec {} {:016x} {} rt {} in {} gap {}",
                        s.len(),
                        fnv64(&s),
                        counters[1],
                        n,
                        h,
                        c,
                        fnv64(&data) == h && n == data.len(),
                        data.len(),
                        if gap == u64::MAX { -1 } else { gap as i64 }
                    )
                }
            }
        }
        "dec" if v["cuts"].is_array() => {
            // one LZMA2 stream, one of its LZMA chunks cut to many different lengths (header size field and
            // payload): the range decoder runs dry in as many different states
            let s = unhex(v["stream"].as_str().unwrap_or(""));
            let dict = v["dict"].as_u64().unwrap_or(4096) as u32;
            let off = v["chunk"]["off"].as_u64().unwrap_or(0) as usize;
            let hdr = v["chunk"]["hdr"].as_u64().unwrap_or(0) as usize;
            let packed = v["chunk"]["packed"].as_u64().unwrap_or(0) as usize;
            let mut fold = 0xcbf29ce484222325u64;
            let mut count = 0usize;
            let mut detail = String::new();
            for k in v["cuts"].as_array().unwrap() {
                let k = k.as_u64().unwrap_or(1) as usize;
                if off + hdr + packed > s.len() || k + 1 >= packed || off + 5 > s.len() {
                    continue;
                }
                let mut m = s.clone();
                let np = packed - k - 1;
                m[off + 3] = (np >> 8) as u8;
                m[off + 4] = np as u8;
                let end = off + hdr + packed;
                m.drain(end - k..end);
                let (n, h, c) = drain(&mut LZMA2Reader::new(m.as_slice(), dict, None), chunk);
                for b in (n as u64).to_le_bytes().iter().chain(h.to_le_bytes().iter()).chain(c.as_bytes().iter()) {
                    fold = (fold ^ *b as u64).wrapping_mul(0x100000001b3);
                }
                if detail.len() < 200 {
                    detail.push_str(&format!(" {k}:{n}:{c}"));
                }
                count += 1;
            }
            format!("dec-cuts {count} {fold:016x}{detail}")
        }
        "dec" => {
            let s = unhex(v["stream"].as_str().unwrap_or(""));
            let decoder = v["decoder"].as_str().unwrap_or("");
            let dict = v["dict"].as_u64().unwrap_or(4096) as u32;
            let (n, h, c) = match decoder {
                "lzma1" => {
                    let p = &v["params"];
                    match LZMAReader::new(
                        s.as_slice(),
                        v["size"].as_u64().unwrap_or(u64::MAX),
                        p["lc"].as_u64().unwrap_or(3) as u32,
                        p["lp"].as_u64().unwrap_or(0) as u32,
                        p["pb"].as_u64().unwrap_or(2) as u32,
                        dict,
                        None,
                    ) {
                        Ok(mut r) => drain(&mut r, chunk),
                        Err(e) => (0, 0, err_class(&e)),
                    }
                }
                "lzma_header" => match LZMAReader::new_mem_limit(s.as_slice(), u32::MAX, None) {
                    Ok(mut r) => drain(&mut r, chunk),
                    Err(e) => (0, 0, err_class(&e)),
                },
                "lzma2" => drain(&mut LZMA2Reader::new(s.as_slice(), dict, None), chunk),
                "xz" => drain(&mut XZReader::new(s.as_slice(), v["multi"].as_bool().unwrap_or(false)), chunk),
                _ => match LZIPReader::new(s.as_slice()) {
                    Ok(mut r) => drain(&mut r, chunk),
                    Err(e) => (0, 0, err_class(&e)),
                },
            };
            format!("dec {n} {h:016x} {c}")
        }
        "norm" => {
            // scalar vs dispatching normalisation on an i32 array with an arbitrary start alignment
            let vals: Vec<i32> = v["values"].as_array().map(|a| a.iter().map(|x| x.as_i64().unwrap_or(0) as i32).collect()).unwrap_or_default();
            let off = v["offset"].as_i64().unwrap_or(0) as i32;
            let skip = v["skip"].as_u64().unwrap_or(0) as usize;
            let mut a = vals.clone();
            let mut b = vals.clone();
            let s = skip.min(a.len());
            verif_api::normalize_scalar(&mut a[s..], off);
            verif_api::normalize_dispatch(&mut b[s..], off);
            let model: Vec<i32> = vals.iter().enumerate().map(|(i, &p)| if i < s { p } else { (p as i64 - off as i64).max(0) as i32 }).collect();
            format!(
                "norm scalar {:016x} dispatch {:016x} model {:016x}",
                fnv64(&a.iter().flat_map(|x| x.to_le_bytes()).collect::<Vec<u8>>()),
                fnv64(&b.iter().flat_map(|x| x.to_le_bytes()).collect::<Vec<u8>>()),
                fnv64(&model.iter().flat_map(|x| x.to_le_bytes()).collect::<Vec<u8>>())
            )
        }
        _ => "unknown-kind".to_string(),
    }
}

fn main() {
    let path = std::env::args().nth(1).expect("usage: featx <cases.jsonl>");
    let f = std::fs::File::open(path).expect("open cases");
    std::panic::set_hook(Box::new(|_| {}));
    for line in std::io::BufReader::new(f).lines() {
        let line = line.expect("read");
        if line.trim().is_empty() {
            continue;
        }
        let v: Value = serde_json::from_str(&line).expect("json");
        let id = v["id"].as_u64().unwrap_or(0);
        let r = std::panic::catch_unwind(|| run_case(&v));
        match r {
            Ok(t) => println!("{id} {t}"),
            Err(_) => println!("{id} PANIC"),
        }
    }
}
