//! Coverage-guided target for C01 / C15: generated (options, framing, data) round trips under
//! AddressSanitizer with the crate's shadow assertions compiled in.
//! The input is decoded with `arbitrary::Unstructured`: options, framing, write size, position
//! bias, window fit, then a little data grammar (literal runs, copies from the output so far,
//! byte runs).  Oracle: decode(encode(x)) == x, no panic, no sanitizer report.
#![no_main]

use std::io::{Read, Write};

use arbitrary::Unstructured;
use libfuzzer_sys::fuzz_target;
use lzma_rust2::{
    EncodeMode, LZIPOptions, LZIPReader, LZIPWriter, LZMA2Options, LZMA2Reader, LZMA2Writer, LZMAOptions, LZMAReader, LZMAWriter, MFType, XZOptions, XZReader,
    XZWriter,
};

fn build_data(u: &mut Unstructured, max: usize) -> arbitrary::Result<Vec<u8>> {
    let mut out: Vec<u8> = Vec::new();
    while !u.is_empty() && out.len() < max {
        match u.int_in_range(0u8..=3)? {
            0 => {
                let n = u.int_in_range(1usize..=64)?;
                let b = u.bytes(n.min(u.len()))?;
                out.extend_from_slice(b);
            }
            1 if !out.is_empty() => {
                let dist = 1 + u.int_in_range(0usize..=70_000)? % out.len();
                let len = u.int_in_range(2usize..=600)?;
                for _ in 0..len {
                    let b = out[out.len() - dist];
                    out.push(b);
                }
            }
            2 => {
                let len = u.int_in_range(1usize..=5000)?;
                let b = u.arbitrary::<u8>()?;
                out.resize(out.len() + len, b);
            }
            _ if !out.is_empty() => {
                // long periodic stretch (cheap way to reach window moves)
                let period = 1 + u.int_in_range(0usize..=400)? % out.len();
                let len = u.int_in_range(1000usize..=30_000)?;
                for _ in 0..len {
                    let b = out[out.len() - period];
                    out.push(b);
                }
            }
            _ => {}
        }
    }
    Ok(out)
}

fn run(u: &mut Unstructured) -> arbitrary::Result<()> {
    let framing = u.int_in_range(0u8..=4)?;
    let lzma2_like = framing >= 2;
    let dict = match u.int_in_range(0u8..=3)? {
        0 => 4096,
        1 => 65_536,
        2 => u.int_in_range(4096u32..=(1 << 20))?,
        _ => 1u32 << u.int_in_range(12u32..=18)?,
    };
    let (lc, lp) = if lzma2_like {
        let lc = u.int_in_range(0u32..=4)?;
        (lc, u.int_in_range(0u32..=(4 - lc))?)
    } else {
        (u.int_in_range(0u32..=8)?, u.int_in_range(0u32..=4)?)
    };
    let pb = u.int_in_range(0u32..=4)?;
    let mode = if u.arbitrary::<bool>()? { EncodeMode::Fast } else { EncodeMode::Normal };
    let nice = u.int_in_range(8u32..=273)?;
    let mf = if u.arbitrary::<bool>()? { MFType::HC4 } else { MFType::BT4 };
    let depth = u.int_in_range(0i32..=64)?;
    let o = LZMAOptions::new(dict, lc, lp, pb, mode, nice, mf, depth);
    let piece = [1usize << 30, 4096, 1000, 77, 1][u.int_in_range(0usize..=4)?];
    let chunk = [65_536usize, 4096, 7, 1][u.int_in_range(0usize..=3)?];
    // every unit builds a fresh encoder (about 1 MiB of tables): keep the number of units per input moderate
    let unit = if u.ratio(1, 3)? { u.int_in_range(2_000u64..=100_000)? } else { 0 };
    let bias_on = u.ratio(1, 4)?;
    let bias_k = u.int_in_range(0i64..=100_000)?;
    let fit: Option<i64> = if u.ratio(1, 16)? { Some(u.int_in_range(-2i64..=2)?) } else { None };
    let mut data = build_data(u, 40_000)?;

    let encode = |data: &[u8]| -> std::io::Result<Vec<u8>> {
        fn feed<W: Write>(w: &mut W, data: &[u8], piece: usize) -> std::io::Result<()> {
            for c in data.chunks(piece.max(1)) {
                w.write_all(c)?;
            }
            Ok(())
        }
        match framing {
            0 => {
                let mut w = LZMAWriter::new_use_header(Vec::new(), &o, None)?;
                feed(&mut w, data, piece)?;
                w.finish()
            }
            1 => {
                let mut w = LZMAWriter::new(Vec::new(), &o, false, true, None)?;
                feed(&mut w, data, piece)?;
                w.finish()
            }
            2 => {
                let mut l2 = LZMA2Options { lzma_options: o.clone(), chunk_size: None };
                l2.set_chunk_size(core::num::NonZeroU64::new(unit));
                let mut w = LZMA2Writer::new(Vec::new(), l2);
                feed(&mut w, data, piece)?;
                w.finish()
            }
            3 => {
                let mut xo = XZOptions::with_preset(6);
                xo.lzma_options = o.clone();
                xo.set_block_size(core::num::NonZeroU64::new(unit));
                let mut w = XZWriter::new(Vec::new(), xo)?;
                feed(&mut w, data, piece)?;
                w.finish()
            }
            _ => {
                let mut lo = LZIPOptions::with_preset(6);
                lo.lzma_options = o.clone();
                lo.set_member_size(core::num::NonZeroU64::new(unit));
                let mut w = LZIPWriter::new(Vec::new(), lo);
                feed(&mut w, data, piece)?;
                w.finish()
            }
        }
    };

    #[cfg(lzma_rust2_verif)]
    {
        if let Some(delta) = fit {
            let _ = lzma_rust2::verif_api::take_last_finish_gap();
            let _ = encode(&data);
            let gap = lzma_rust2::verif_api::take_last_finish_gap();
            if gap != u64::MAX && gap <= (1 << 20) {
                let n = gap as i64 + delta;
                if n < 0 {
                    let cut = ((-n) as usize).min(data.len());
                    data.truncate(data.len() - cut);
                } else {
                    if data.is_empty() {
                        data.extend_from_slice(b"window fit ");
                    }
                    let period = data.len().min(331);
                    for _ in 0..n {
                        let b = data[data.len() - period];
                        data.push(b);
                    }
                }
            }
        }
        if bias_on && !data.is_empty() {
            let k = bias_k % data.len() as i64;
            lzma_rust2::verif_api::set_lz_pos_bias((0x7FFF_FFFFi64 - (dict as i64 + 1) - (k + 1)).max(0) as i32);
        }
    }
    let _ = (bias_on, bias_k, fit);
    let packed = encode(&data);
    #[cfg(lzma_rust2_verif)]
    lzma_rust2::verif_api::set_lz_pos_bias(0);
    let packed = match packed {
        Ok(p) => p,
        // legal options, in-memory sink: the writer has no reason to fail
        Err(e) => panic!("writer failed on legal options: {e}"),
    };

    let mut out: Vec<u8> = Vec::with_capacity(data.len());
    let mut buf = vec![0u8; chunk];
    let mut rd = |r: &mut dyn Read| loop {
        match r.read(&mut buf) {
            Ok(0) => break,
            Ok(n) => out.extend_from_slice(&buf[..n]),
            Err(e) => panic!("reader failed on writer output: {e}"),
        }
    };
    match framing {
        0 => rd(&mut LZMAReader::new_mem_limit(packed.as_slice(), u32::MAX, None).expect("header")),
        1 => rd(&mut LZMAReader::new(packed.as_slice(), u64::MAX, lc, lp, pb, dict, None).expect("raw")),
        2 => rd(&mut LZMA2Reader::new(packed.as_slice(), dict, None)),
        3 => rd(&mut XZReader::new(packed.as_slice(), false)),
        _ => rd(&mut LZIPReader::new(packed.as_slice()).expect("lzip")),
    }
    assert!(out == data, "round trip mismatch: {} bytes in, {} bytes out", data.len(), out.len());
    Ok(())
}

fuzz_target!(|bytes: &[u8]| {
    let mut u = Unstructured::new(bytes);
    let _ = run(&mut u);
});
