//! Coverage-guided target for C06 / C15: every decoder of the crate on arbitrary bytes.
//! Layout of the input: 6 parameter bytes [decoder, p1..p5], then the stream.
//! Oracle inside the target: every call returns (a panic, a shadow assertion or an
//! AddressSanitizer report ends the process); output is capped.
#![no_main]

use std::io::Read;

use libfuzzer_sys::fuzz_target;
use lzma_rust2::filter::bcj::BCJReader;
use lzma_rust2::filter::bcj2::BCJ2Reader;
use lzma_rust2::filter::delta::DeltaReader;
use lzma_rust2::{LZIPReader, LZMA2Reader, LZMAReader, XZReader};

const CAP: usize = 1 << 20;

const CRC32: crc::Crc<u32> = crc::Crc::<u32>::new(&crc::CRC_32_ISO_HDLC);

/// Recomputes the CRC32 of the XZ stream header, of the first block header, of the index and of the
/// footer (located from the front / from the back), so that mutations reach the parsers behind them.
fn fix_xz_crcs(m: &mut [u8]) {
    let n = m.len();
    let put = |m: &mut [u8], a: usize, b: usize, at: usize| {
        if a <= b && b <= m.len() && at + 4 <= m.len() {
            let c = CRC32.checksum(&m[a..b]);
            m[at..at + 4].copy_from_slice(&c.to_le_bytes());
        }
    };
    if n >= 12 {
        put(m, 6, 8, 8);
    }
    if n > 13 && m[12] != 0 {
        let hs = (m[12] as usize + 1) * 4;
        if 12 + hs <= n {
            put(m, 12, 12 + hs - 4, 12 + hs - 4);
        }
    }
    if n >= 24 + 12 {
        let f = n - 12;
        let bs = (u32::from_le_bytes([m[f + 4], m[f + 5], m[f + 6], m[f + 7]]) as usize).saturating_add(1).saturating_mul(4);
        if bs >= 8 && bs <= f {
            put(m, f - bs, f - 4, f - 4);
        }
        put(m, f + 4, f + 10, f);
    }
}

fn drain<R: Read>(r: &mut R, chunk: usize) {
    let mut buf = vec![0u8; chunk.max(1)];
    let mut total = 0usize;
    let mut errors = 0;
    loop {
        match r.read(&mut buf) {
            Ok(0) => break,
            Ok(n) => {
                total += n;
                if total > CAP {
                    break;
                }
            }
            Err(_) => {
                // a read after an error must return as well
                errors += 1;
                if errors == 2 {
                    break;
                }
            }
        }
    }
    let _ = r.read(&mut buf[..0]);
    let _ = r.read(&mut buf);
}

fuzz_target!(|data: &[u8]| {
    if data.len() < 6 {
        return;
    }
    let (p, s) = data.split_at(6);
    let chunk = [65_536usize, 4096, 7, 1, 333][(p[5] % 5) as usize];
    let dict = 4096u32 << (p[2] % 13);
    match p[0] % 8 {
        0 => {
            if let Ok(mut r) = LZMAReader::new_mem_limit(s, 128 << 10, None) {
                drain(&mut r, chunk);
            }
        }
        1 => {
            let size = match p[3] % 4 {
                0 => u64::MAX,
                1 => p[4] as u64 * 37,
                2 => 1 << 63,
                _ => s.len() as u64 * 3,
            };
            if let Ok(mut r) = LZMAReader::new_with_props(s, size, p[1], dict, None) {
                drain(&mut r, chunk);
            }
        }
        2 => drain(&mut LZMA2Reader::new(s, dict, None), chunk),
        3 => {
            if p[1] & 2 != 0 {
                let mut m = s.to_vec();
                fix_xz_crcs(&mut m);
                let mut r = XZReader::new(m.as_slice(), p[1] & 1 == 1);
                drain(&mut r, chunk);
                drop(r);
            } else {
                drain(&mut XZReader::new(s, p[1] & 1 == 1), chunk)
            }
        }
        4 => {
            if let Ok(mut r) = LZIPReader::new(s) {
                drain(&mut r, chunk);
            }
        }
        5 => {
            let start = u32::from_le_bytes([p[1], p[2], p[3], p[4]]) as usize;
            let mut r: Box<dyn Read> = match p[5] / 5 % 8 {
                0 => Box::new(BCJReader::new_x86(s, start)),
                1 => Box::new(BCJReader::new_ppc(s, start)),
                2 => Box::new(BCJReader::new_ia64(s, start)),
                3 => Box::new(BCJReader::new_arm(s, start)),
                4 => Box::new(BCJReader::new_arm_thumb(s, start)),
                5 => Box::new(BCJReader::new_sparc(s, start)),
                6 => Box::new(BCJReader::new_arm64(s, start)),
                _ => Box::new(BCJReader::new_riscv(s, start)),
            };
            drain(&mut r, chunk);
        }
        6 => drain(&mut DeltaReader::new(s, 1 + p[1] as usize), chunk),
        _ => {
            let mut streams: Vec<std::io::Cursor<Vec<u8>>> = Vec::new();
            let mut q = 0usize;
            for _ in 0..4 {
                let mut len = 0usize;
                if q + 2 <= s.len() {
                    len = u16::from_le_bytes([s[q], s[q + 1]]) as usize;
                    q += 2;
                }
                let e = q.saturating_add(len).min(s.len());
                streams.push(std::io::Cursor::new(s[q..e].to_vec()));
                q = e;
            }
            let size = match p[3] % 3 {
                0 => u64::MAX,
                1 => p[4] as u64 * 41,
                _ => s.len() as u64,
            };
            drain(&mut BCJ2Reader::new(streams, size), chunk);
        }
    }
});
