#!/bin/bash
# usage: seeddemo.sh <Cxx> <letter>   confirms a seeded change's demonstration in the sub-agent's worktree (at /repo's HEAD):
# fails with the patch, passes without it. Independent of /repo, can run beside the checks.
P=$1; X=$2
ROOT=${SEEDROOT:-/tmp/seed3}
W=$ROOT/$P
OUT=/verif/seeded/${P}_$X
mkdir -p $OUT
cp $W/OUT/${X}_patch.diff $OUT/patch.diff
cp $W/OUT/${X}_demo.rs $OUT/demo.rs
cd $W && git checkout -q -- src && cp OUT/${X}_demo.rs tests/seed_demo_$X.rs
git apply OUT/${X}_patch.diff || { echo "$P $X PATCH DOES NOT APPLY in worktree"; exit 3; }
timeout 1200 cargo test --offline --test seed_demo_$X > $OUT/demo_with_change.log 2>&1; RC1=$?
git checkout -q -- src
timeout 1200 cargo test --offline --test seed_demo_$X > $OUT/demo_unchanged.log 2>&1; RC2=$?
rm -f tests/seed_demo_$X.rs
echo "$P $X demo_with=$RC1 demo_without=$RC2" | tee -a /verif/seeded/DEMOS.txt
