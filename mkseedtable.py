#!/usr/bin/env python3
"""Rewrites the seed table of DESIGN.md section 7 from seeded/*/meta.json."""
import glob, json, re
p = '/verif/DESIGN.md'
s = open(p).read()
rows = []
for q in sorted(glob.glob('/verif/seeded/*/meta.json')):
    d = json.load(open(q))
    rows.append(f"| {d['seed']} | {d['needs_to_manifest']} | {d['caught_by']} |")
head = "| seed | needs | caught by (quick tier) |\n|---|---|---|\n"
a = s.index(head) + len(head)
b = s.index("\nSeed C04a (reader accepted")
s = s[:a] + "\n".join(rows) + "\n" + s[b:]
open(p, 'w').write(s)
print(len(rows), "rows")
